"""Generator of queries of the counting fragment F0 (coq/Model/FragTranslate.v): source text for the
implementation and the reference semantics, and the S-expression of the same query for the model."""
import random
from fractions import Fraction
from typing import Any, List, Tuple

from . import qgen

BACKENDS = {
    "atlas": ("atlas", "atlas_xaod_tree", 'tree("atlas_xaod_tree")->Fill();', True),
    "cms_aod": ("cms_aod", "cms_aod_tree", "myTree->Fill();", False),
    "cms_miniaod": ("cms_miniaod", "cms_miniaod_tree", "myTree->Fill();", False),
}


def gen_pa(rng: random.Random, var: str, d: int, funs: bool = False) -> Tuple[str, Any]:
    """Element-level arithmetic.  `funs`: math functions may appear (bodies only - a condition on an
    uninterpreted value cannot be executed by the model)."""
    k = rng.random()
    if d <= 0 or k < 0.5:
        j = rng.random()
        if j < 0.6:
            m = rng.choice(["pt", "eta", "phi", "m"])
            return f"{var}.{m}()", ["meth", m]
        if j < 0.85:
            z = rng.choice([0, 1, 2, 30, 5])
            return str(z), ["int", z]
        t = rng.choice(["0.5", "1.5", "30.0", "2.25", "1e-05"])
        fr = Fraction(t)
        return t, ["dbl", t, fr.numerator, fr.denominator]
    if k < 0.58:
        a, sa = gen_pa(rng, var, d - 1, funs)
        return f"(-{a})", ["neg", sa]
    if k < 0.70:
        a, sa = gen_pa(rng, var, d - 1, funs)
        # divisors: mostly constants away from zero, sometimes arbitrary (division by zero is a fault on both sides)
        if rng.random() < 0.8:
            b, sb = rng.choice([("2", ["int", 2]), ("30", ["int", 30]), ("0.5", ["dbl", "0.5", 1, 2]), ("1.5", ["dbl", "1.5", 3, 2])])
        else:
            b, sb = gen_pa(rng, var, d - 1, funs)
        return f"({a}/{b})", ["div", sa, sb]
    if funs and k < 0.78:
        a, sa = gen_pa(rng, var, d - 1, funs)
        f = rng.choice(["sqrt", "sin", "cos", "exp", "log", "tanh"])
        return f"{f}({a})", ["fun", "std::" + f, sa]
    a, sa = gen_pa(rng, var, d - 1, funs)
    b, sb = gen_pa(rng, var, d - 1, funs)
    op = rng.choice(["+", "-", "*"])
    return f"({a}{op}{b})", ["bin", op, sa, sb]


def gen_pred(rng, var, d):
    a, sa = gen_pa(rng, var, d)
    b, sb = gen_pa(rng, var, min(d, 1))
    op = rng.choice(["<", "<=", ">", ">=", "==", "!="])
    if rng.random() < 0.15:
        return f"not ({a} {op} {b})", ["not", op, sa, sb]
    return f"{a} {op} {b}", [op, sa, sb]


def gen_body(rng, var: str, d: int, funs: bool = False):
    """The value computed from one element: arithmetic, or + - * over conditional expressions `a if c else b`
    (test a comparison, arms arithmetic)."""
    k = rng.random()
    if k < 0.65:
        return gen_pa(rng, var, d, funs)

    def cond():
        c, sc = gen_pred(rng, var, rng.choice([0, 1]))
        a, sa = gen_pa(rng, var, rng.choice([0, 1]), funs)
        b, sb = gen_pa(rng, var, rng.choice([0, 1]), funs)
        return f"({a} if {c} else {b})", ["if", sc, sa, sb]

    x, sx = cond()
    if k < 0.85:
        return x, sx
    op = rng.choice(["+", "-", "*"])
    if rng.random() < 0.5:
        y, sy = cond()
    else:
        y, sy = gen_pa(rng, var, rng.choice([0, 1]), funs)
    if rng.random() < 0.5:
        return f"({x}{op}{y})", ["bbin", op, sx, sy]
    return f"({y}{op}{x})", ["bbin", op, sy, sx]


def gen_guard(rng, nvar: List[int], d_choices=(0, 1, 2)):
    """The filter between a collection and its consumer -> (source suffix, guard on the wire).
    none | one Where | Where(p and q [and r]) | Where(p or q [or r]) | Where(p).Where(q) (func_adl fuses it into `and`)"""
    k = rng.random()
    if k < 0.3:
        return "", []
    nvar[0] += 1
    v = f"x{nvar[0]}"
    if k < 0.6:
        p, sp = gen_pred(rng, v, rng.choice(list(d_choices)))
        return f".Where(lambda {v}: {p})", [sp]
    n = rng.choice([2, 2, 3])
    if k < 0.9:
        word = rng.choice(["and", "or"])
        ps = [gen_pred(rng, v, rng.choice([0, 1])) for _ in range(n)]
        return f".Where(lambda {v}: " + f" {word} ".join(p for p, _ in ps) + ")", [word] + [sp for _, sp in ps]
    # chained Where calls, each with its own variable
    src, sx = "", ["and"]
    for i in range(2):
        if i:
            nvar[0] += 1
            v = f"x{nvar[0]}"
        p, sp = gen_pred(rng, v, rng.choice([0, 1]))
        src += f".Where(lambda {v}: {p})"
        sx.append(sp)
    return src, sx


def gen_count(rng, uni: qgen.Universe, ev: str, uses: List[Tuple[str, str]], nvar: List[int]):
    name = rng.choice(list(uni.colls))
    bank = rng.choice(["b1", "b2"])
    uses.append((name, bank))
    ct, _ = uni.colls[name]
    arrow = uni.backend == "atlas"
    g_src, preds = gen_guard(rng, nvar)
    src = f'{ev}.{name}("{bank}")' + g_src
    if rng.random() < 0.45:
        nvar[0] += 1
        v = f"y{nvar[0]}"
        b, sb = gen_body(rng, v, rng.choice([0, 1, 2]))   # no functions here: a Sum of uninterpreted values may reach a comparison
        if rng.random() < 0.4:
            # explicit Aggregate(seed, lambda a, v: a OP v): seed an int or floating literal, OP one of + - *
            sd, ssd = rng.choice([("0", ["int", 0]), ("1", ["int", 1]), ("2", ["int", 2]), ("0.5", ["dbl", "0.5", 1, 2]),
                                  ("1.5", ["dbl", "1.5", 3, 2]), ("2.0", ["dbl", "2.0", 2, 1])])
            op = rng.choice(["+", "+", "-", "*"])
            nvar[0] += 2
            a, w = f"a{nvar[0]}", f"w{nvar[0]}"
            return (src + f".Select(lambda {v}: {b}).Aggregate({sd}, lambda {a}, {w}: {a} {op} {w})",
                    ["count", [name.lower(), ct, bank, arrow, preds, ["agg", ssd, op, sb]]])
        return src + f".Select(lambda {v}: {b}).Sum()", ["count", [name.lower(), ct, bank, arrow, preds, ["sum", sb]]]
    return src + ".Count()", ["count", [name.lower(), ct, bank, arrow, preds, ["count"]]]


def gen_ex(rng, uni, ev, d, uses, nvar, top=False, cmp_ok=False, arith2=False, funs=False):
    """Event-level expression.  arith2: true division, unary minus and floating literals may appear; funs: math
    functions too (only where the value is not compared: a comparison of an uninterpreted value cannot be executed)."""
    k = rng.random()
    if d <= 0 or k < 0.5:
        j = rng.random()
        if j < 0.15:
            # an element by position: e.Coll("bank")[i].m() - bounds-checked, undefined when the collection is shorter
            name = rng.choice(list(uni.colls))
            bank = rng.choice(["b1", "b2"])
            uses.append((name, bank))
            ct, _ = uni.colls[name]
            i = rng.choice([0, 0, 1, 2])
            m = rng.choice(["pt", "eta", "phi", "m"])
            return f'{ev}.{name}("{bank}")[{i}].{m}()', ["idx", name.lower(), ct, bank, uni.backend == "atlas", i, m]
        if top or j < 0.8:
            return gen_count(rng, uni, ev, uses, nvar)
        if arith2 and j < 0.9:
            t = rng.choice(["0.5", "1.5", "2.0", "30.0"])
            fr = Fraction(t)
            return t, ["dbl", t, fr.numerator, fr.denominator]
        z = rng.choice([0, 1, 2, 3])
        return str(z), ["int", z]
    op = rng.choice(["+", "-", "*", "+"]) if not cmp_ok else rng.choice(["+", "-", "*", ">", "==", "<="])
    if arith2 and op in "+-*" and rng.random() < 0.12:
        # a conditional: the test a boolean (comparison, and / or), each arm in its own branch of if / else
        c, sc = gen_boolex(rng, uni, ev, rng.choice([0, 0, 1]), uses, nvar)
        a, sa = gen_ex(rng, uni, ev, d - 1, uses, nvar, top=(rng.random() < 0.6), arith2=True)
        b, sb = gen_ex(rng, uni, ev, d - 1, uses, nvar, arith2=True)
        return f"({a} if {c} else {b})", ["eif", sc, sa, sb]
    if arith2 and op in "+-*":
        j = rng.random()
        if j < 0.10:
            a, sa = gen_ex(rng, uni, ev, d - 1, uses, nvar, top=True, arith2=True, funs=funs)
            return f"(-{a})", ["neg", sa]
        if j < 0.28:
            a, sa = gen_ex(rng, uni, ev, d - 1, uses, nvar, top=True, arith2=True, funs=funs)
            if rng.random() < 0.7:
                b, sb = rng.choice([("2", ["int", 2]), ("3", ["int", 3]), ("0.5", ["dbl", "0.5", 1, 2])])
            else:
                b, sb = gen_ex(rng, uni, ev, d - 1, uses, nvar, arith2=True, funs=funs)
            return f"({a}/{b})", ["div", sa, sb]
        if funs and j < 0.40:
            a, sa = gen_ex(rng, uni, ev, d - 1, uses, nvar, top=True, arith2=True, funs=True)
            f = rng.choice(["sqrt", "sin", "cos", "exp", "log", "tanh"])
            return f"{f}({a})", ["fun", "std::" + f, sa]
    sub_funs = funs and op in "+-*"
    a, sa = gen_ex(rng, uni, ev, d - 1, uses, nvar, top=True, arith2=arith2, funs=sub_funs)
    b, sb = gen_ex(rng, uni, ev, d - 1, uses, nvar, arith2=arith2, funs=sub_funs)
    return f"({a}{op}{b})" if op in "+-*" else f"({a} {op} {b})", ["bin", op, sa, sb]


def gen_boolex(rng, uni, ev, d, uses, nvar):
    """Event-level boolean: a comparison of event-level expressions, or `and` / `or` of two booleans (the second operand's
    code is emitted inside `if (v)` / `if (!v)`: it is not run when the first decides)."""
    if d <= 0 or rng.random() < 0.45:
        a, sa = gen_ex(rng, uni, ev, rng.choice([0, 0, 1]), uses, nvar, top=True, arith2=True)
        b, sb = gen_ex(rng, uni, ev, 0, uses, nvar, arith2=True)
        op = rng.choice(["<", "<=", ">", ">=", "==", "!="])
        return f"({a} {op} {b})", ["bin", op, sa, sb]
    word = rng.choice(["and", "or"])
    a, sa = gen_boolex(rng, uni, ev, d - 1, uses, nvar)
    b, sb = gen_boolex(rng, uni, ev, d - 1, uses, nvar)
    return f"({a} {word} {b})", [word, sa, sb]


def gen(rng: random.Random, uni: qgen.Universe, depth: int):
    """-> (query source, ex sexp, uses)"""
    uses: List[Tuple[str, str]] = []
    src, sx = gen_ex(rng, uni, "e", depth, uses, [0], top=True, cmp_ok=True, arith2=True, funs=True)
    if src.startswith("(") and src.endswith(")"):
        src = src[1:-1]
    return f"ds.Select(lambda e: {src})", sx, uses


def gen_vec(rng, uni: qgen.Universe, ev: str, uses, nvar):
    name = rng.choice(list(uni.colls))
    bank = rng.choice(["b1", "b2"])
    uses.append((name, bank))
    ct, _ = uni.colls[name]
    arrow = uni.backend == "atlas"
    g_src, preds = gen_guard(rng, nvar, (0, 1))
    src = f'{ev}.{name}("{bank}")' + g_src
    nvar[0] += 1
    v = f"y{nvar[0]}"
    b, sb = gen_body(rng, v, rng.choice([0, 1, 2]), funs=True)
    return src + f".Select(lambda {v}: {b})", ["vec", name.lower(), ct, bank, arrow, preds, sb]


def gen_vec2(rng, uni: qgen.Universe, ev: str, uses, nvar):
    """A 2-D column: C1(b1)[.Where(p1)].Select(lambda o: C2(b2)[.Where(p2)].Select(lambda y: body)) - one vector per passing
    element of the first collection; the body is over the inner element."""
    n1, n2 = rng.choice(list(uni.colls)), rng.choice(list(uni.colls))
    b1, b2 = rng.choice(["b1", "b2"]), rng.choice(["b1", "b2", "b3"])
    uses.append((n1, b1))
    uses.append((n2, b2))
    arrow = uni.backend == "atlas"
    g1_src, p1 = gen_guard(rng, nvar, (0, 1))
    nvar[0] += 1
    o = f"o{nvar[0]}"
    g2_src, p2 = gen_guard(rng, nvar, (0, 1))
    nvar[0] += 1
    v = f"y{nvar[0]}"
    b, sb = gen_body(rng, v, rng.choice([0, 1, 2]), funs=True)
    src = f'{ev}.{n1}("{b1}"){g1_src}.Select(lambda {o}: {ev}.{n2}("{b2}"){g2_src}.Select(lambda {v}: {b}))'
    return src, ["vec2", n1.lower(), uni.colls[n1][0], b1, arrow, p1, n2.lower(), uni.colls[n2][0], b2, arrow, p2, sb]


def gen_flat(rng, uni: qgen.Universe, ev: str, uses, nvar):
    """A flattened column: C1(b1)[.Where(p1)].SelectMany(lambda o: C2(b2)[.Where(p2)]).Select(lambda y: body), or with the Select
    inside the SelectMany lambda - ONE vector, the inner values once per passing outer element."""
    n1, n2 = rng.choice(list(uni.colls)), rng.choice(list(uni.colls))
    b1, b2 = rng.choice(["b1", "b2"]), rng.choice(["b1", "b2", "b3"])
    uses.append((n1, b1))
    uses.append((n2, b2))
    arrow = uni.backend == "atlas"
    g1_src, p1 = gen_guard(rng, nvar, (0, 1))
    nvar[0] += 1
    o = f"o{nvar[0]}"
    g2_src, p2 = gen_guard(rng, nvar, (0, 1))
    nvar[0] += 1
    v = f"y{nvar[0]}"
    b, sb = gen_body(rng, v, rng.choice([0, 1, 2]), funs=True)
    if rng.random() < 0.5:
        src = f'{ev}.{n1}("{b1}"){g1_src}.SelectMany(lambda {o}: {ev}.{n2}("{b2}"){g2_src}).Select(lambda {v}: {b})'
    else:
        src = f'{ev}.{n1}("{b1}"){g1_src}.SelectMany(lambda {o}: {ev}.{n2}("{b2}"){g2_src}.Select(lambda {v}: {b}))'
    return src, ["flat", n1.lower(), uni.colls[n1][0], b1, arrow, p1, n2.lower(), uni.colls[n2][0], b2, arrow, p2, sb]


def gen_first(rng, uni: qgen.Universe, ev: str, uses, nvar):
    """A First column: coll[.Where(p)].First().m()  or  coll[.Where(p)].Select(lambda y: body).First()"""
    name = rng.choice(list(uni.colls))
    bank = rng.choice(["b1", "b2"])
    uses.append((name, bank))
    ct, _ = uni.colls[name]
    arrow = uni.backend == "atlas"
    g_src, preds = gen_guard(rng, nvar, (0, 1))
    src = f'{ev}.{name}("{bank}")' + g_src
    if rng.random() < 0.5:
        m = rng.choice(["pt", "eta", "phi", "m"])
        return src + f".First().{m}()", ["first", name.lower(), ct, bank, arrow, preds, ["meth", m], "@THROW@"]
    nvar[0] += 1
    v = f"y{nvar[0]}"
    if rng.random() < 0.45:
        # a body with conditional expressions: their variables are assigned for every passing element, the value is captured once
        b, sb = gen_body(rng, v, rng.choice([0, 1, 2]), funs=True)
        if sb[0] in ("if", "bbin"):
            return src + f".Select(lambda {v}: {b}).First()", ["firstb", name.lower(), ct, bank, arrow, preds, sb, "@THROW@"]
        return src + f".Select(lambda {v}: {b}).First()", ["first", name.lower(), ct, bank, arrow, preds, sb, "@THROW@"]
    b, sb = gen_pa(rng, v, rng.choice([0, 1, 2]), funs=True)
    return src + f".Select(lambda {v}: {b}).First()", ["first", name.lower(), ct, bank, arrow, preds, sb, "@THROW@"]


def fill_throw_lines(sx, qlines: List[str]) -> None:
    """The message of the exception thrown by First quotes the query text: the model takes the k-th emitted
    throw statement as the text of the k-th First column (its place in the program is still compared)."""
    throws = [ln.strip() for ln in qlines if ln.strip().startswith("throw std::runtime_error(")]
    k = [0]

    def walk(x):
        if isinstance(x, list):
            for i, y in enumerate(x):
                if y == "@THROW@":
                    x[i] = throws[k[0]] if k[0] < len(throws) else "@MISSING-THROW@"
                    k[0] += 1
                else:
                    walk(y)

    walk(sx)


def gen_row(rng: random.Random, uni: qgen.Universe, depth: int):
    """-> (query source, list of (name, column sexp), uses).  Terminal forms: bare, tuple, list, dict."""
    uses: List[Tuple[str, str]] = []
    nvar = [0]
    n = rng.choice([1, 1, 2, 3])
    cols = []
    for _ in range(n):
        k = rng.random()
        if k < 0.42:
            if rng.random() < 0.25:
                s, sx = gen_boolex(rng, uni, "e", rng.choice([1, 1, 2]), uses, nvar)
            else:
                s, sx = gen_ex(rng, uni, "e", depth, uses, nvar, top=True, cmp_ok=True, arith2=True, funs=True)
            if s.startswith("(") and s.endswith(")") and sx[0] == "bin":
                pass
            cols.append((s, ["scalar", sx]))
        elif k < 0.62:
            s, sx = gen_first(rng, uni, "e", uses, nvar)
            cols.append((s, sx))
        elif k < 0.8:
            s, sx = gen_vec(rng, uni, "e", uses, nvar)
            cols.append((s, sx))
        elif k < 0.9:
            s, sx = gen_flat(rng, uni, "e", uses, nvar)
            cols.append((s, sx))
        else:
            s, sx = gen_vec2(rng, uni, "e", uses, nvar)
            cols.append((s, sx))
    form = rng.choice(["tuple", "list", "dict"]) if n > 1 else rng.choice(["bare", "dict", "tuple"])
    if form == "bare":
        names = ["col1"]
        body = cols[0][0]
    elif form == "dict":
        names = ["a", "bb", "c3x"][:n]
        body = "{" + ", ".join(f'"{nm}": {c[0]}' for nm, c in zip(names, cols)) + "}"
    else:
        names = [f"col{i}" for i in range(n)]
        inner = ", ".join(c[0] for c in cols)
        body = f"({inner},)" if (form == "tuple" and n == 1) else (f"({inner})" if form == "tuple" else f"[{inner}]")
    return f"ds.Select(lambda e: {body})", [[nm, c[1]] for nm, c in zip(names, cols)], uses


# ------------------------------------------------------------------------------------------------
# fragment F1 (coq/Model/FragQuery.v): an optional event filter, then Select(ROW) or
# SelectMany(coll[.Where(p)].Select(PROW))
# ------------------------------------------------------------------------------------------------
def gen_prow(rng, var: str):
    """-> (body source, names, [(name, pa sexp)])"""
    n = rng.choice([1, 1, 2, 3])
    cols = [gen_body(rng, var, rng.choice([0, 1, 2]), funs=True) for _ in range(n)]
    form = rng.choice(["tuple", "list", "dict"]) if n > 1 else rng.choice(["bare", "dict", "tuple"])
    if form == "bare":
        names, body = ["col1"], cols[0][0]
    elif form == "dict":
        names = ["a", "bb", "c3x"][:n]
        body = "{" + ", ".join(f'"{nm}": {c[0]}' for nm, c in zip(names, cols)) + "}"
    else:
        names = [f"col{i}" for i in range(n)]
        inner = ", ".join(c[0] for c in cols)
        body = f"({inner},)" if (form == "tuple" and n == 1) else (f"({inner})" if form == "tuple" else f"[{inner}]")
    return body, [[nm, c[1]] for nm, c in zip(names, cols)]


def gen_query_f1(rng: random.Random, uni: qgen.Universe, depth: int):
    """-> (query source, query sexp, uses, kind)"""
    uses: List[Tuple[str, str]] = []
    nvar = [0]
    src = "ds"
    flt: List[Any] = []
    if rng.random() < 0.55:
        # the condition is a comparison between event-level expressions (the implementation refuses a filter
        # that is not boolean-typed)
        if rng.random() < 0.35:
            cs, cx = gen_boolex(rng, uni, "e", rng.choice([1, 1, 2]), uses, nvar)
            cs = cs[1:-1]
        else:
            a, sa = gen_ex(rng, uni, "e", rng.choice([0, 1, 1]), uses, nvar, top=True, arith2=True)
            b, sb = gen_ex(rng, uni, "e", 0, uses, nvar, arith2=True)
            op = rng.choice(["<", "<=", ">", ">=", "==", "!="])
            cs, cx = f"{a} {op} {b}", ["bin", op, sa, sb]
        src += f".Where(lambda e: {cs})"
        flt = [cx]
    if rng.random() < 0.5:
        rsrc, cols, ruses = gen_row(rng, uni, depth)
        # gen_row numbers its lambda variables from 1: rename to keep them distinct from the filter's
        uses += ruses
        body_src = rsrc[len("ds"):]
        return src + body_src, [flt, ["row", cols]], uses, "select"
    name = rng.choice(list(uni.colls))
    bank = rng.choice(["b1", "b2"])
    uses.append((name, bank))
    ct, _ = uni.colls[name]
    arrow = uni.backend == "atlas"
    g_src, preds = gen_guard(rng, nvar)
    seq = f'e.{name}("{bank}")' + g_src
    nvar[0] += 1
    v = f"y{nvar[0]}"
    body, cols = gen_prow(rng, v)
    style = rng.choice(["inside", "inside", "outside"])
    if style == "inside":
        src += f".SelectMany(lambda e: {seq}.Select(lambda {v}: {body}))"
    else:
        # the same query with the element-level steps chained on the event stream
        src += f".SelectMany(lambda e: {seq}).Select(lambda {v}: {body})"
    return src, [flt, ["many", [name.lower(), ct, bank, arrow], preds, cols]], uses, "selectmany"
