"""Regeneration of coq/gen/*.v from the current /repo by the fail-closed translators.
Each translator returns the text of a .v file or raises Refusal.  A refusal writes a stub that makes
every theorem depending on the file fail to build, and is reported by the checks that depend on it."""
from pathlib import Path
from typing import Callable, Dict

from .core import COQ


class Refusal(Exception):
    pass


TRANSLATORS: Dict[str, Callable[[], str]] = {}
FALLBACKS: Dict[str, str] = {}


def translator(name: str, fallback: str = ""):
    """`fallback` is the text written when the translator refuses: definitions of the same names with
    empty content, so that the executable models still build while every theorem about the artefact
    fails."""

    def deco(f):
        TRANSLATORS[name] = f
        FALLBACKS[name] = fallback
        return f

    return deco


def _load():
    import importlib
    import pkgutil

    from . import translators

    for m in pkgutil.iter_modules(translators.__path__):
        importlib.import_module(f"{translators.__name__}.{m.name}")


def regenerate_all() -> Dict[str, str]:
    _load()
    errors: Dict[str, str] = {}
    gen = COQ / "gen"
    gen.mkdir(exist_ok=True)
    for name, f in sorted(TRANSLATORS.items()):
        target = gen / name
        try:
            text = f()
        except Refusal as e:
            errors[name] = str(e)
            text = f"(* translator refused: {str(e).replace('*)', '* )')} *)\n" + FALLBACKS.get(name, "")
        except Exception as e:  # noqa: BLE001 - fail closed on anything
            errors[name] = f"translator crashed: {type(e).__name__}: {e}"
            text = "(* translator crashed *)\n" + FALLBACKS.get(name, "")
        header = "(* GENERATED from /repo on every run by tools/fv/translators - do not edit. *)\n"
        text = header + text
        if not target.exists() or target.read_text() != text:
            target.write_text(text)
    return errors
