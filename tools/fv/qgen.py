"""Generated queries, events and the reference LINQ semantics (ordinary Python evaluation of the query
source over a small runtime) used by the checks of C01-C05/C09/C13.

* `Universe(backend)`: test universe - collections, element types, declared methods (metadata), container
  type texts (the specification of what each collection must be retrieved as).
* `gen_query(rng, uni, depth)`: typed random query source + feature tags (used to classify known findings).
* `gen_events(rng, uni, banks, n)`: events with collection sizes 0..4, values from a small lattice with ties,
  zeros and negatives.
* `reference(src, events)`: rows per event under Python/LINQ semantics (exact rationals; math functions
  uninterpreted), or ("fault", kind).
"""
import ast
import math
import random
from fractions import Fraction
from typing import Any, Dict, List, Optional, Tuple


# ------------------------------------------------------------------------------------------------
# universe
# ------------------------------------------------------------------------------------------------
class Universe:
    def __init__(self, backend: str):
        self.backend = backend
        if backend == "atlas":
            self.colls = {
                "Jets": ("const xAOD::JetContainer*", "xAOD::Jet"),
                "Tracks": ("const xAOD::TrackParticleContainer*", "xAOD::TrackParticle"),
                "Electrons": ("const xAOD::ElectronContainer*", "xAOD::Electron"),
                "Muons": ("const xAOD::MuonContainer*", "xAOD::Muon"),
            }
            self.singletons = {"EventInfo": ("const xAOD::EventInfo *", "xAOD::EventInfo")}
        elif backend == "cms_aod":
            self.colls = {
                "Muons": ("edm::Handle<reco::MuonCollection>", "reco::Muon"),
                "Tracks": ("edm::Handle<reco::TrackCollection>", "reco::Track"),
                "GsfElectrons": ("edm::Handle<reco::GsfElectronCollection>", "reco::GsfElectron"),
            }
            self.singletons = {}
        else:
            self.colls = {
                "Muons": ("Handle<pat::MuonCollection>", "pat::Muon"),
                "Electrons": ("Handle<pat::ElectronCollection>", "pat::Electron"),
                "Vertex": ("Handle<reco::VertexCollection>", "reco::Vertex"),
            }
            self.singletons = {}
        # methods available on every element type: name -> kind
        self.dbl_methods = ["pt", "eta", "phi", "m"]
        self.declared = {"nTrk": "int", "isGood": "bool", "charge": "float", "vals": "vec_double", "hits": "vec_int"}

    def metadata(self) -> List[Dict[str, Any]]:
        md = []
        types = [t for _, t in self.colls.values()] + [t for _, t in self.singletons.values()]
        for t in types:
            md.append({"metadata_type": "add_method_type_info", "type_string": t, "method_name": "nTrk", "return_type": "int"})
            md.append({"metadata_type": "add_method_type_info", "type_string": t, "method_name": "isGood", "return_type": "bool"})
            md.append({"metadata_type": "add_method_type_info", "type_string": t, "method_name": "charge", "return_type": "float"})
            md.append({"metadata_type": "add_method_type_info", "type_string": t, "method_name": "vals", "return_type_element": "double"})
            md.append({"metadata_type": "add_method_type_info", "type_string": t, "method_name": "hits", "return_type_element": "int"})
            # a method whose C++ type is not what the tree stores (an enum written as int): used by fixed queries only
            md.append({"metadata_type": "add_method_type_info", "type_string": t, "method_name": "color", "return_type": "MyNS::Color", "tree_type": "int"})
        return md


# ------------------------------------------------------------------------------------------------
# reference runtime
# ------------------------------------------------------------------------------------------------
class RefFault(Exception):
    pass


class RefUnsupported(Exception):
    pass


class N:
    """A number: kind 'i' (Python int) or 'd' (Python float, carried exactly as a rational)."""

    __slots__ = ("k", "v")

    def __init__(self, k, v):
        self.k = k
        self.v = Fraction(v)

    @staticmethod
    def lift(x):
        if isinstance(x, (N, Sym)):
            return x
        if isinstance(x, bool):
            return N("i", int(x))
        if isinstance(x, int):
            return N("i", x)
        if isinstance(x, float):
            if math.isinf(x) or math.isnan(x):
                raise RefUnsupported("non-finite float")
            return N("d", Fraction(repr(x)))
        raise RefUnsupported(f"arithmetic on {type(x).__name__}")

    def _bin(self, o, op, rev=False):
        o = N.lift(o)
        if isinstance(o, Sym):
            return Sym(op, [o, self] if rev else [self, o])
        a, b = (o, self) if rev else (self, o)
        both_int = a.k == "i" and b.k == "i"
        if op == "+":
            return N("i" if both_int else "d", a.v + b.v)
        if op == "-":
            return N("i" if both_int else "d", a.v - b.v)
        if op == "*":
            return N("i" if both_int else "d", a.v * b.v)
        if op == "/":
            if b.v == 0:
                raise RefFault("div_zero")
            return N("d", a.v / b.v)
        if op == "%":
            if b.v == 0:
                raise RefFault("div_zero")
            if a.v < 0 or b.v < 0:
                raise RefUnsupported("% on a negative operand (outside the property's range)")
            return N("i" if both_int else "d", a.v - b.v * (a.v // b.v))
        raise RefUnsupported(op)

    def __add__(self, o): return self._bin(o, "+")
    def __radd__(self, o): return self._bin(o, "+", True)
    def __sub__(self, o): return self._bin(o, "-")
    def __rsub__(self, o): return self._bin(o, "-", True)
    def __mul__(self, o): return self._bin(o, "*")
    def __rmul__(self, o): return self._bin(o, "*", True)
    def __truediv__(self, o): return self._bin(o, "/")
    def __rtruediv__(self, o): return self._bin(o, "/", True)
    def __mod__(self, o): return self._bin(o, "%")
    def __rmod__(self, o): return self._bin(o, "%", True)
    def __pow__(self, o): return Sym("std::pow", [_dbl(self), _dbl(N.lift(o))])
    def __rpow__(self, o): return Sym("std::pow", [_dbl(N.lift(o)), _dbl(self)])
    def __neg__(self): return N(self.k, -self.v)
    def __pos__(self): return self
    def __abs__(self): return Sym("std::abs", [_dbl(self)])

    def _cmp(self, o):
        o = N.lift(o)
        if isinstance(o, Sym):
            raise RefUnsupported("comparison with an uninterpreted value")
        return o.v

    def __lt__(self, o): return self.v < self._cmp(o)
    def __le__(self, o): return self.v <= self._cmp(o)
    def __gt__(self, o): return self.v > self._cmp(o)
    def __ge__(self, o): return self.v >= self._cmp(o)
    def __eq__(self, o): return self.v == self._cmp(o)
    def __ne__(self, o): return self.v != self._cmp(o)
    def __hash__(self): return hash(self.v)
    def __bool__(self): return self.v != 0


def _dbl(x):
    if isinstance(x, N):
        return N("d", x.v)
    return x


class Sym:
    """Uninterpreted application (math functions, user C++): arithmetic stays symbolic."""

    def __init__(self, f, args):
        self.f = f
        self.args = args

    def _bin(self, o, op, rev=False):
        o = N.lift(o)
        return Sym(op, [o, self] if rev else [self, o])

    def __add__(self, o): return self._bin(o, "+")
    def __radd__(self, o): return self._bin(o, "+", True)
    def __sub__(self, o): return self._bin(o, "-")
    def __rsub__(self, o): return self._bin(o, "-", True)
    def __mul__(self, o): return self._bin(o, "*")
    def __rmul__(self, o): return self._bin(o, "*", True)
    def __truediv__(self, o): return self._bin(o, "/")
    def __rtruediv__(self, o): return self._bin(o, "/", True)
    def __neg__(self): return Sym("u-", [self])
    def __pos__(self): return Sym("u+", [self])
    def __abs__(self): return Sym("std::abs", [self])

    def _no(self, *a):
        raise RefUnsupported("comparison/branch on an uninterpreted value")

    __lt__ = __le__ = __gt__ = __ge__ = __eq__ = __ne__ = __bool__ = _no
    __hash__ = None  # type: ignore


class Seq:
    """A lazily evaluated, memoised stream (ordinary generator / LINQ semantics): Select and Where do no work until
    a consumer pulls elements; First() and indexing pull only as far as they need, every other consumer (`items`)
    pulls everything, in order.  So `Select(f).First()` evaluates f on the first element only - a fault of f on a
    later element is not a fault of the query."""

    def __init__(self, items):
        self._it = iter(items)
        self._got: List[Any] = []

    def _pull(self) -> bool:
        try:
            self._got.append(next(self._it))
            return True
        except StopIteration:
            return False

    def __iter__(self):
        i = 0
        while i < len(self._got) or self._pull():
            yield self._got[i]
            i += 1

    @property
    def items(self):
        while self._pull():
            pass
        return self._got

    def Select(self, f): return Seq(f(x) for x in self)
    def Where(self, p): return Seq(x for x in self if _truth(p(x)))

    def SelectMany(self, f):
        def gen():
            for x in self:
                r = f(x)
                if not isinstance(r, Seq):
                    raise RefUnsupported("SelectMany of a non-sequence")
                yield from r
        return Seq(gen())

    def Count(self): return N("i", len(self.items))

    def Sum(self):
        acc = N("i", 0)
        for x in self.items:
            acc = acc + x
        return acc

    def Aggregate(self, seed, f):
        acc = N.lift(seed)
        for x in self.items:
            acc = f(acc, x)
        return acc

    def Max(self):
        if not self.items:
            raise RefFault("max_empty")
        m = self.items[0]
        for x in self.items[1:]:
            if x > m:
                m = x
        return m

    def Min(self):
        if not self.items:
            raise RefFault("min_empty")
        m = self.items[0]
        for x in self.items[1:]:
            if x < m:
                m = x
        return m

    def First(self):
        if not self._got and not self._pull():
            raise RefFault("first_empty")
        return self._got[0]

    def __getitem__(self, i):
        i = N.lift(i)
        if not isinstance(i, N) or i.k != "i":
            raise RefUnsupported("index")
        if i.v < 0:
            raise RefFault("index")
        while len(self._got) <= i.v and self._pull():
            pass
        if i.v >= len(self._got):
            raise RefFault("index")
        return self._got[int(i.v)]


def _truth(x):
    if isinstance(x, bool):
        return x
    if isinstance(x, N):
        return x.v != 0
    raise RefUnsupported("truth value of " + type(x).__name__)


class Obj:
    def __init__(self, oid, table):
        self._oid = oid
        self._table = table

    def __getattr__(self, name):
        if name.startswith("_"):
            raise AttributeError(name)
        oid, table = self._oid, self._table

        def call(*args):
            if args:
                return Sym(name, [("o", oid)] + [N.lift(a) for a in args])
            v = table.get((oid, name))
            if v is None:
                return Sym(name, [("o", oid)])
            return _from_wire(v, table)

        return call


class EventObj:
    def __init__(self, ev, uni: Universe):
        self._ev = ev
        self._uni = uni
        self._table = {(o, m): v for o, m, v in ev["meths"]}

    def __getattr__(self, name):
        if name.startswith("_"):
            raise AttributeError(name)
        uni, ev, table = self._uni, self._ev, self._table

        def call(bank):
            if name in uni.colls:
                ct = uni.colls[name][0]
            elif name in uni.singletons:
                ct = uni.singletons[name][0]
            else:
                raise RefUnsupported("collection " + name)
            for c, b, v in ev["colls"]:
                if c == ct and b == bank:
                    return _from_wire(v, table)
            raise RefFault("retrieve_failed")

        return call


def _from_wire(v, table):
    t = v[0]
    if t == "i":
        return N("i", v[1])
    if t == "d":
        return N("d", Fraction(v[1], v[2]))
    if t == "b":
        return bool(v[1])
    if t == "o":
        return Obj(v[1], table)
    if t == "v":
        return Seq(_from_wire(x, table) for x in v[1:])
    if t == "null":
        return NullObj()
    raise RefUnsupported(t)


class NullObj:
    def __getattr__(self, name):
        if name.startswith("_"):
            raise AttributeError(name)

        def call(*a):
            raise RefFault("null_deref")

        return call


def to_wire(x):
    """Reference value -> the wire form of Exec values (for comparison)."""
    if isinstance(x, bool):
        return ["b", x]
    if isinstance(x, N):
        return ["i", int(x.v)] if x.k == "i" else ["d", x.v.numerator, x.v.denominator]
    if isinstance(x, int):
        return ["i", x]
    if isinstance(x, float):
        return to_wire(N.lift(x))
    if isinstance(x, Sym):
        return ["sym", x.f] + [to_wire(a) for a in x.args]
    if isinstance(x, tuple) and len(x) == 2 and x[0] == "o":
        return ["o", x[1]]
    if isinstance(x, Seq):
        return ["v"] + [to_wire(i) for i in x.items]
    if isinstance(x, Obj):
        return ["o", x._oid]
    raise RefUnsupported("value " + type(x).__name__)


MATH = ["sin", "cos", "tan", "exp", "log", "sqrt", "tanh", "atan", "floor", "ceil"]


def _mathfun(name):
    def f(*args):
        return Sym("std::" + name, [_dbl(N.lift(a)) for a in args])
    return f


class _DS:
    """The dataset for ONE event; top-level operators produce the rows of that event."""

    def __init__(self, seq: Seq):
        self.seq = seq

    def Select(self, f): return _DS(self.seq.Select(f))
    def Where(self, p): return _DS(self.seq.Where(p))
    def SelectMany(self, f): return _DS(self.seq.SelectMany(f))
    def MetaData(self, md): return self
    def AsROOTTTree(self, fname, tname, cols): return self


def _row(x) -> List[Any]:
    if isinstance(x, dict):
        return [to_wire(v) for v in x.values()]
    if isinstance(x, (tuple, list)):
        return [to_wire(v) for v in x]
    return [to_wire(x)]


class _WrapConst(ast.NodeTransformer):
    """Every numeric literal of the query becomes an exact number of the reference runtime (so that
    constant-only sub-expressions are computed exactly too)."""

    def visit_Constant(self, node):
        if isinstance(node.value, (int, float)) and not isinstance(node.value, bool):
            return ast.copy_location(ast.Call(func=ast.Name(id="_K", ctx=ast.Load()), args=[node], keywords=[]), node)
        return node

    def visit_Call(self, node):
        # bank names etc. are strings; Range bounds stay numbers (wrapped); nothing special
        return self.generic_visit(node)


_COMPILED: Dict[str, Any] = {}


def reference_event(src: str, ev, uni: Universe):
    code = _COMPILED.get(src)
    if code is None:
        tree = ast.fix_missing_locations(_WrapConst().visit(ast.parse(src, mode="eval")))
        code = compile(tree, "<query>", "eval")
        _COMPILED[src] = code
    src = code
    env = {"_K": N.lift, "ds": _DS(Seq([EventObj(ev, uni)])), "Range": lambda a, b: Seq(N("i", i) for i in range(int(N.lift(a).v), int(N.lift(b).v))), "abs": abs}
    for m in MATH:
        env[m] = _mathfun(m)
    try:
        r = eval(src, env)
        return ["rows", [_row(x) for x in r.seq.items]]
    except RefFault as e:
        return ["fault", str(e)]
    except ZeroDivisionError:
        return ["fault", "div_zero"]


# ------------------------------------------------------------------------------------------------
# events
# ------------------------------------------------------------------------------------------------
LATTICE_D = [Fraction(0), Fraction(1), Fraction(-1), Fraction(5, 2), Fraction(-7, 2), Fraction(30), Fraction(31), Fraction(1, 4), Fraction(100)]
LATTICE_I = [0, 1, 2, -1, 3, 7]


def gen_event(rng: random.Random, uni: Universe, uses: List[Tuple[str, str]], oid0: int = 0, sizes=None):
    """uses: (collection name, bank) pairs the query mentions."""
    colls = []
    meths = []
    oid = oid0
    seen = set()
    for name, bank in uses:
        if (name, bank) in seen:
            continue
        seen.add((name, bank))
        if name in uni.singletons:
            ct = uni.singletons[name][0]
            colls.append([ct, bank, ["o", oid]])
            objs = [oid]
            oid += 1
        else:
            ct = uni.colls[name][0]
            n = rng.choice(sizes or [0, 0, 1, 2, 2, 3, 4])
            objs = list(range(oid, oid + n))
            oid += n
            colls.append([ct, bank, ["v"] + [["o", o] for o in objs]])
        for o in objs:
            for m in uni.dbl_methods + ["runNumber", "eventNumber"]:
                q = rng.choice(LATTICE_D)
                meths.append([o, m, ["d", q.numerator, q.denominator]])
            meths.append([o, "nTrk", ["i", rng.choice(LATTICE_I)]])
            meths.append([o, "isGood", ["b", rng.random() < 0.6]])
            q = rng.choice(LATTICE_D)
            meths.append([o, "charge", ["d", q.numerator, q.denominator]])
            meths.append([o, "vals", ["v"] + [["d", x.numerator, x.denominator] for x in (rng.choice(LATTICE_D) for _ in range(rng.choice([0, 1, 2, 3])))]])
            meths.append([o, "hits", ["v"] + [["i", rng.choice(LATTICE_I)] for _ in range(rng.choice([0, 1, 2, 3]))]])
    return {"colls": colls, "meths": meths}


def event_wire(ev):
    return [[list(c) for c in ev["colls"]], [list(m) for m in ev["meths"]]]


# ------------------------------------------------------------------------------------------------
# query generator
# ------------------------------------------------------------------------------------------------
class Q:
    """A generated query: source text, feature tags, the (collection, bank) pairs it uses."""

    def __init__(self):
        self.uses: List[Tuple[str, str]] = []
        self.feat: set = set()
        self.nvar = 0
        self.ops = 0

    def var(self, base):
        self.nvar += 1
        return f"{base}{self.nvar}"


class Gen:
    def __init__(self, rng: random.Random, uni: Universe, depth: int, allow=()):  # allow: extra feature classes to generate
        self.r = rng
        self.u = uni
        self.depth = depth
        self.allow = set(allow)
        self.q = Q()
        self.cur_event: Optional[str] = None
        self.graft: Optional[str] = None
        self.graft_done = False

    # --- sequences of objects, given the event variable `e` and outer object variables in scope
    def coll(self, e: str) -> Tuple[str, str]:
        name = self.r.choice(list(self.u.colls))
        bank = self.r.choice(["b1", "b1", "b2"])
        self.q.uses.append((name, bank))
        self.q.ops += 1
        return f'{e}.{name}("{bank}")', name

    def objseq(self, e: str, scope: List[str], d: int) -> str:
        s, _ = self.coll(e)
        k = self.r.random()
        if d > 0 and k < 0.45:
            v = self.q.var("w")
            s = f"{s}.Where(lambda {v}: {self.pred(e, scope + [v], d - 1)})"
            self.q.ops += 1
            if self.r.random() < 0.2:
                v2 = self.q.var("w")
                s = f"{s}.Where(lambda {v2}: {self.pred(e, scope + [v2], 0)})"
                self.q.ops += 1
        return s

    def numseq(self, e: str, scope: List[str], d: int) -> Tuple[str, str]:
        """sequence of numbers; returns (src, kind)"""
        k = self.r.random()
        if k < 0.15 and scope:
            o = self.r.choice(scope)
            m = self.r.choice(["vals", "hits"])
            self.q.ops += 1
            return f"{o}.{m}()", ("d" if m == "vals" else "i")
        if k < 0.22 and "range" in self.allow:
            self.q.feat.add("range")
            v = self.q.var("r")
            self.q.ops += 1
            return f"Range(0, {self.r.choice([0, 1, 3])}).Select(lambda {v}: {v}*{self.r.choice(['2', '1.5'])})", "d"
        s = self.objseq(e, scope, d)
        v = self.q.var("s")
        if self.r.random() < 0.08:
            # a sequence of literals (one per element): Select(lambda s: 1) - the body mentions no variable at all
            body, kind = self.const()
            self.q.feat.add("literal_body")
        else:
            body, kind = self.scalar(e, scope + [v], d - 1, obj=v)
        self.q.ops += 1
        return f"{s}.Select(lambda {v}: {body})", kind

    # --- scalars
    def atom(self, scope: List[str], obj: Optional[str]) -> Tuple[str, str]:
        if scope and (obj is not None or self.r.random() < 0.8):
            o = obj if (obj is not None and self.r.random() < 0.7) else self.r.choice(scope)
            k = self.r.random()
            if k < 0.7:
                return f"{o}.{self.r.choice(self.u.dbl_methods)}()", "d"
            if k < 0.85:
                return f"{o}.nTrk()", "i"
            return f"{o}.charge()", "d"
        if self.cur_event is not None and self.r.random() < 0.75:
            s, _ = self.coll(self.cur_event)
            return f"{s}.Count()", "i"
        return self.const()

    def const(self) -> Tuple[str, str]:
        if self.r.random() < 0.5:
            return str(self.r.choice([0, 1, 2, 3, 30])), "i"
        return self.r.choice(["0.5", "1.5", "2.0", "30.0", "0.25"]), "d"

    def _graft_scalar(self, e, scope, d, obj):
        g = self.graft
        o = obj if obj is not None else (scope[-1] if scope else None)
        if g in SCALAR_GRAFTS_OBJ and o is None:
            return None
        self.graft_done = True
        self.q.feat.add("graft:" + g)
        if g in SCALAR_GRAFTS_OBJ:
            return SCALAR_GRAFTS_OBJ[g].format(o=o), "d"
        if g in COLL_GRAFTS:
            c, _ = self.coll(self.cur_event)
            if COLL_GRAFTS[g].startswith("BANK:"):
                c2, _ = self.coll(self.cur_event)
                return c[: c.index("(")] + "(" + COLL_GRAFTS[g][5:].format(c=c2) + ").Count()", "d"
            return COLL_GRAFTS[g].format(c=c), "d"
        if g in SEQ_GRAFTS:
            self.graft = None
            s, _ = self.numseq(e, scope, max(d - 1, 0))
            self.graft = g
            return SEQ_GRAFTS[g].format(s=s), "d"
        self.graft = None
        a, _ = self.scalar(e, scope, max(d - 1, 0), obj)
        self.graft = g
        return SCALAR_GRAFTS[g].format(a=a), "d"

    def scalar(self, e: str, scope: List[str], d: int, obj: Optional[str] = None) -> Tuple[str, str]:
        if self.graft and not self.graft_done and (self.graft in SCALAR_GRAFTS or self.graft in SCALAR_GRAFTS_OBJ or self.graft in SEQ_GRAFTS or self.graft in COLL_GRAFTS) and self.r.random() < 0.35:
            r = self._graft_scalar(e, scope, d, obj)
            if r is not None:
                return r
        k = self.r.random()
        if d <= 0 or k < 0.3:
            return self.atom(scope, obj)
        self.q.ops += 1
        if k < 0.5:
            a, ka = self.scalar(e, scope, d - 1, obj)
            b, kb = (self.scalar(e, scope, d - 1, obj) if self.r.random() < 0.6 else self.const())
            op = self.r.choice(["+", "-", "*", "+", "*", "/"])
            if op == "/":
                if ka == "i" and kb == "i":
                    if "int_true_division" not in self.allow:
                        op = "*"
                    else:
                        self.q.feat.add("int_true_division")
                if op == "/":
                    # keep the divisor away from zero: x*x + 1
                    b = f"({b}*{b}+1)"
                    return f"({a}/{b})", "d"
            return f"({a}{op}{b})", ("i" if ka == "i" and kb == "i" else "d")
        if k < 0.62:
            s = self.objseq(e, scope, d - 1)
            return f"{s}.Count()", "i"
        if k < 0.72:
            s, kind = self.numseq(e, scope, d - 1)
            return f"{s}.Sum()", kind
        if k < 0.78:
            a, ka = self.scalar(e, scope, d - 1, obj)
            return f"{self.r.choice(['sin', 'cos', 'sqrt', 'exp'])}({a})", "d"
        if k < 0.88:
            c = self.pred(e, scope, d - 1)
            a, ka = self.scalar(e, scope, d - 1, obj)
            b, kb = self.scalar(e, scope, d - 1, obj)
            self.q.feat.add("ifexp")
            return f"({a} if {c} else {b})", "d"
        if k < 0.94 and "first" in self.allow:
            s = self.objseq(e, scope, d - 1)
            if "index" in self.allow and self.r.random() < 0.35:
                # an element by position (bounds-checked): of a sequence of objects, or of a number vector of the current object
                self.q.feat.add("index")
                i = self.r.choice([0, 0, 1, 2])
                o = obj if obj is not None else (scope[-1] if scope else None)
                if o is not None and self.r.random() < 0.4:
                    return f"{o}.{self.r.choice(['vals', 'hits'])}()[{i}]", "d"
                return f"{s}[{i}].{self.r.choice(self.u.dbl_methods)}()", "d"
            self.q.feat.add("first")
            if self.r.random() < 0.3 and self.cur_event is not None:
                # First of a sequence whose elements live in VARIABLES of the loop body (a conditional's result, a count made per
                # element): the value captured is the FIRST element's
                j, t = self.q.var("j"), self.q.var("t")
                m = self.r.choice(self.u.dbl_methods)
                self.q.feat.add("first_of_variable")
                if self.r.random() < 0.5:
                    self.q.feat.add("ifexp")
                    return f"{s}.Select(lambda {j}: ({j}.{m}() if {j}.{m}() > 1 else 0.5)).First()", "d"
                c2, _ = self.coll(self.cur_event)
                return f"{s}.Select(lambda {j}: {c2}.Where(lambda {t}: {t}.{m}() > {j}.{m}()).Count()).First()", "i"
            return f"{s}.First().{self.r.choice(self.u.dbl_methods)}()", "d"
        if "aggregate" in self.allow:
            s, kind = self.numseq(e, scope, d - 1)
            self.q.feat.add("aggregate")
            pick = self.r.random()
            if pick < 0.5:
                seed = '0' if kind == 'i' else '0.0'
            elif pick < 0.75:
                # a negative literal is not a constant node (unary minus of a constant) - it is still just the starting value
                seed = self.r.choice(['-1', '-3'] if kind == 'i' else ['-1.5', '-10.0', '-1'])
                self.q.feat.add("aggregate_negative_seed")
            elif obj is not None or scope:
                # the starting value is a number of the enclosing object: computed before the loop, once per outer object
                o = obj if obj is not None else scope[-1]
                seed = f"{o}.{self.r.choice(self.u.dbl_methods)}()"
                kind = "d"
                self.q.feat.add("aggregate_outer_seed")
            else:
                seed = self.r.choice(['1', '2'] if kind == 'i' else ['1.5', '2.0'])
            return f"{s}.Aggregate({seed}, lambda acc, v: acc + v*2)", kind
        a, ka = self.scalar(e, scope, d - 1, obj)
        return f"(-{a})", ka

    def pred(self, e: str, scope: List[str], d: int) -> str:
        if self.graft in PRED_GRAFTS and not self.graft_done and self.r.random() < 0.5:
            g = self.graft
            self.graft_done = True
            self.q.feat.add("graft:" + g)
            self.graft = None
            a, _ = self.scalar(e, scope, 0, obj=(scope[-1] if scope else None))
            b, _ = self.scalar(e, scope, 0, obj=(scope[-1] if scope else None))
            self.graft = g
            return PRED_GRAFTS[g].format(a=a, b=b)
        k = self.r.random()
        if scope and 0.32 <= k < 0.4:
            return f"{scope[-1]}.isGood()"
        a, _ = self.scalar(e, scope, min(d, 1), obj=(scope[-1] if scope else None))
        b, _ = self.const() if self.r.random() < 0.6 else self.scalar(e, scope, 0, obj=(scope[-1] if scope else None))
        c = f"{a} {self.r.choice(['>', '<', '>=', '<=', '==', '!='])} {b}"
        if d > 0 and k < 0.25:
            self.q.feat.add("boolop")
            return f"({c} {self.r.choice(['and', 'or'])} {self.pred(e, scope, d - 1)})"
        if d > 0 and k < 0.32:
            return f"(not {c})"
        return c

    # --- rows
    def flatseq(self, e: str, scope: List[str]) -> str:
        """a sequence of numbers made by FLATTENING: seq.SelectMany(lambda t: inner).Select(lambda x: body)"""
        s1 = self.objseq(e, scope, 0)
        t, x = self.q.var("t"), self.q.var("x")
        self.q.feat.add("flatseq")
        self.q.ops += 2
        if self.r.random() < 0.5:
            inner, _ = self.coll(e)
            body = f"{x}.{self.r.choice(self.u.dbl_methods)}()"
        else:
            inner = f"{t}.{self.r.choice(['vals', 'hits'])}()"
            body = self.r.choice([x, f"{x}*2"])
        return f"{s1}.SelectMany(lambda {t}: {inner}).Select(lambda {x}: {body})"

    def column(self, e: str, scope: List[str], d: int, obj=None) -> str:
        k = self.r.random()
        if obj is None and "flatseq" in self.allow and self.r.random() < 0.08:
            if d > 1 and self.r.random() < 0.5:
                s = self.objseq(e, scope, 0)
                v = self.q.var("o")
                self.q.feat.add("2d")
                self.q.ops += 1
                return f"{s}.Select(lambda {v}: {self.flatseq(e, scope + [v])})"
            return self.flatseq(e, scope)
        if obj is None and k < 0.35:
            s, _ = self.numseq(e, scope, d)
            return s
        if obj is None and k < 0.45 and d > 1:
            # 2-D: per object of one collection, a sequence over another
            s = self.objseq(e, scope, 0)
            v = self.q.var("o")
            inner, _ = self.numseq(e, scope + [v], d - 1)
            self.q.feat.add("2d")
            self.q.ops += 1
            return f"{s}.Select(lambda {v}: {inner})"
        s, _ = self.scalar(e, scope, d, obj)
        return s

    def row(self, e: str, scope: List[str], d: int, obj=None) -> str:
        k = self.r.random()
        n = self.r.choice([1, 2, 2, 3])
        if k < 0.35:
            return self.column(e, scope, d, obj)
        cols = [self.column(e, scope, d, obj) for _ in range(n)]
        if k < 0.65:
            names = ["a", "b", "c", "d"][:n]
            return "{" + ", ".join(f'"{nm}": {c}' for nm, c in zip(names, cols)) + "}"
        if k < 0.85:
            return "(" + ", ".join(cols) + ("," if n == 1 else "") + ")"
        return "[" + ", ".join(cols) + "]"

    def query(self) -> Tuple[str, Q]:
        k = self.r.random()
        src = "ds"
        if k < 0.2:
            v = self.q.var("e")
            self.cur_event = v
            src += f".Where(lambda {v}: {self.pred(v, [], 1)})"
            self.q.feat.add("event_where")
            self.q.ops += 1
        if "shared_shapes" in self.allow and self.r.random() < 0.12:
            # two shapes in which ONE lambda parameter is used at two loop levels
            v = self.q.var("e")
            self.cur_event = v
            s = self.objseq(v, [], 1)
            js, o = self.q.var("js"), self.q.var("j")
            self.q.ops += 3
            if self.r.random() < 0.3:
                # a collection bound ONCE by a directly applied lambda and used first inside the loop over another collection,
                # then after that loop: what the later use reads must have been retrieved in THIS event even when the loop
                # body never ran (an empty outer collection)
                c2, _ = self.coll(v)
                t, o2, x, y = self.q.var("t"), self.q.var("j"), self.q.var("x"), self.q.var("y")
                m = self.r.choice(self.u.dbl_methods)
                inner = f"{t}.Where(lambda {x}: {x}.{m}() > {o2}.{m}()).Count()"
                cols = [f"{s}.Select(lambda {o2}: {inner})", self.r.choice([f"{t}.Count()", f"{t}.Select(lambda {y}: {y}.{m}())"])]
                self.q.feat.add("applied_lambda_shared_collection")
                src += f".Select(lambda {v}: (lambda {t}: ({cols[0]}, {cols[1]}))({c2}))"
                return src, self.q
            if self.r.random() < 0.5:
                # the sequence bound to a parameter is both the row loop and the source of an event-level column
                m = self.r.choice(self.u.dbl_methods)
                agg = self.r.choice([f"{js}.Count()", f"{js}.Select(lambda {self.q.var('s')}: 1).Sum()"])
                self.q.feat.add("shared_param_rows")
                src += f".Select(lambda {v}: {s}).SelectMany(lambda {js}: {js}.Select(lambda {o}: ({o}.{m}(), {agg})))"
            else:
                # a self-join over a sub-collection of one object: the inner use must get its own loop
                x1, x2 = self.q.var("x"), self.q.var("x")
                meth, cmp = self.r.choice([("vals", ">"), ("hits", "<"), ("vals", "!=")])
                self.q.feat.add("selfjoin_inner")
                src += (f".Select(lambda {v}: {s}.Select(lambda {o}: {o}.{meth}().Select(lambda {x1}: "
                        f"{o}.{meth}().Where(lambda {x2}: {x2} {cmp} {x1}).Count())))")
            return src, self.q
        if "selectmany_inside" in self.allow and self.r.random() < 0.18:
            # one row per object, built INSIDE the SelectMany lambda: the event stays in scope, so a column may be a
            # terminal (First/Count/Sum ...) over another collection of the event evaluated once per outer object
            v = self.q.var("e")
            self.cur_event = v
            s = self.objseq(v, [], 1)
            o = self.q.var("j")
            n = self.r.choice([1, 2, 2, 3])
            cols = [self.scalar(v, [o], self.r.choice([1, 2]), obj=o)[0] for _ in range(n)]
            row = cols[0] if (n == 1 and self.r.random() < 0.5) else "(" + ", ".join(cols) + ("," if n == 1 else "") + ")"
            src += f".SelectMany(lambda {v}: {s}.Select(lambda {o}: {row}))"
            self.q.feat.add("selectmany_inside")
            self.q.ops += 2
            return src, self.q
        if "selectmany_inside" in self.allow and self.r.random() < 0.12:
            # rows made by an inner loop nested in an outer one (SelectMany inside SelectMany): every row holds columns of
            # the outer object, of the inner object and of both
            v = self.q.var("e")
            self.cur_event = v
            s1 = self.objseq(v, [], 1)
            o1, o2 = self.q.var("j"), self.q.var("t")
            if self.r.random() < 0.5:
                s2 = self.objseq(v, [o1], 1)
            else:
                s2 = f"{o1}.{self.r.choice(['vals', 'hits'])}()"
            cols = []
            for _ in range(self.r.choice([2, 3, 3])):
                pick = self.r.random()
                if pick < 0.35:
                    cols.append(self.obj_scalar(o1, 1)[0])
                elif pick < 0.7:
                    cols.append(self.obj_scalar(o2, 1)[0] if "(" in s2 and not s2.startswith(o1 + ".") else o2)
                else:
                    a = self.obj_scalar(o1, 0)[0]
                    b = self.obj_scalar(o2, 0)[0] if not s2.startswith(o1 + ".") else o2
                    cols.append(f"({a} - {b})")
            src += f".SelectMany(lambda {v}: {s1}.SelectMany(lambda {o1}: {s2}.Select(lambda {o2}: ({', '.join(cols)}))))"
            self.q.feat.add("selectmany_nested_rows")
            self.q.ops += 3
            return src, self.q
        if self.r.random() < 0.3:
            v = self.q.var("e")
            self.cur_event = v
            s = self.objseq(v, [], 1)
            src += f".SelectMany(lambda {v}: {s})"
            self.cur_event = None
            o = self.q.var("j")
            # after SelectMany the event is no longer in scope: rows are built from the object only
            src += f".Select(lambda {o}: {self.row_obj(o)})"
            self.q.feat.add("selectmany_top")
            self.q.ops += 2
        else:
            v = self.q.var("e")
            self.cur_event = v
            src += f".Select(lambda {v}: {self.row(v, [], self.depth)})"
            self.q.ops += 1
        return src, self.q

    def row_obj(self, o: str) -> str:
        n = self.r.choice([1, 2, 3])
        cols = []
        for _ in range(n):
            k = self.r.random()
            if k < 0.6:
                cols.append(self.obj_scalar(o, 2)[0])
            elif "selectmany_seq_column" in self.allow:
                v = self.q.var("x")
                self.q.feat.add("selectmany_seq_column")
                cols.append(f"{o}.vals().Select(lambda {v}: {v}*2.0)")
            else:
                cols.append(self.obj_scalar(o, 1)[0])
        if n == 1 and self.r.random() < 0.5:
            return cols[0]
        if self.r.random() < 0.5:
            return "{" + ", ".join(f'"c{i}": {c}' for i, c in enumerate(cols)) + "}"
        return "(" + ", ".join(cols) + ("," if n == 1 else "") + ")"

    def obj_scalar(self, o: str, d: int) -> Tuple[str, str]:
        k = self.r.random()
        if d <= 0 or k < 0.4:
            return self.atom([o], o)
        self.q.ops += 1
        if k < 0.7:
            a, ka = self.obj_scalar(o, d - 1)
            b, kb = self.obj_scalar(o, d - 1) if self.r.random() < 0.5 else self.const()
            op = self.r.choice(["+", "-", "*"])
            return f"({a}{op}{b})", ("i" if ka == "i" and kb == "i" else "d")
        if k < 0.8:
            v = self.q.var("x")
            return f"{o}.vals().Where(lambda {v}: {v} > 0).Count()", "i"
        if k < 0.9:
            if "selectmany_inside" in self.allow and "first" in self.allow and self.r.random() < 0.4:
                # a First() over a sub-collection of the row's own object
                self.q.feat.add("first")
                v = self.q.var("x")
                return self.r.choice([f"{o}.vals().First()", f"{o}.vals().Where(lambda {v}: {v} > 1).First()"]), "d"
            return f"{o}.hits().Sum()", "i"
        a, _ = self.obj_scalar(o, d - 1)
        b, _ = self.obj_scalar(o, d - 1)
        self.q.feat.add("ifexp")
        return f"({a} if {o}.pt() > 1 else {b})", "d"


def gen_query(rng: random.Random, uni: Universe, depth: int = 3, allow=()) -> Tuple[str, Q]:
    return Gen(rng, uni, depth, allow).query()


# ------------------------------------------------------------------------------------------------
# malformed stream: one unsupported construct grafted into an otherwise valid query
# ------------------------------------------------------------------------------------------------
SCALAR_GRAFTS = {
    "binop_floordiv": "({a}//2)",
    "binop_matmul": "({a}@2)",
    "binop_lshift": "({a}<<1)",
    "binop_bitand": "({a}&1)",
    "unop_invert": "(~{a})",
    "value_as_seq_count": "{a}.Count()",
    "value_as_seq_select": "{a}.Select(lambda z: z).Sum()",
    "fstring": 'f"{{{a}}}"',
    "set_literal": "{{{a}, 1}}",
    "unknown_function": "frobnicate({a})",
    "bare_lambda": "(lambda z: {a})",
    "method_on_number": "({a}+0.5).foo()",
    "complex_constant": "({a}+2j)",
    # a built-in sequence source called with a number of arguments it does not have (a Python-style step, no bounds)
    "range_step": "({a} + Range(0, 3, 2).Count())",
    "range_no_args": "({a} + Range().Count())",
}
SCALAR_GRAFTS_OBJ = {
    # arithmetic on an object (every operator, either position): only numbers have arithmetic
    "obj_add": "({o}+1)",
    "obj_sub": "(1-{o})",
    "obj_mul": "({o}*2.0)",
    "obj_div": "({o}/2)",
    "obj_rdiv": "(1000.0/{o})",
    "obj_mod": "({o}%2)",
    "obj_pow": "({o}**2)",
    # ... also when BOTH operands are objects of one type (nothing numeric anywhere)
    "obj_obj_add": "({o}+{o})",
    "obj_obj_sub": "({o}-{o})",
    "obj_obj_mul": "({o}*{o})",
    "vec_vec_add": "({o}.vals()+{o}.vals())",
    # a method on a NUMBER, under a name the same query has already used on an object (whatever was learnt about the name there)
    "known_method_on_number": "({o}.pt() + {o}.eta().pt())",
    "known_method_on_number_2": "({o}.eta() * {o}.pt().eta())",
    "getattribute": '{o}.getAttribute("x")',
    "kwargs": "{o}.pt(unit=1)",
    "slice": "{o}.vals()[0:2].Count()",
}
COLL_GRAFTS = {
    # arithmetic on a collection as fetched from the event (not yet a Select/Where sequence)
    "coll_add": "({c}+1)",
    "coll_mul": "(2*{c})",
    "coll_div": "({c}/2)",
    "coll_rdiv": "(1000.0/{c})",
    "coll_mod": "({c}%2)",
    "coll_coll_sub": "({c}-{c})",
    "coll_coll_mul": "({c}*{c})",
    # the bank of a collection call is a string CONSTANT: an expression in its place (even one the translator can render:
    # a negated number, arithmetic, a count) is a malformed call
    "bank_negated_number": "BANK:-1",
    "bank_arithmetic": "BANK:1+1",
    "bank_count_expression": "BANK:{c}.Count()",
}
SEQ_GRAFTS = {
    "seq_arith": "({s}+1)",
    "seq_sub": "({s}-1)",
    "seq_mul": "(2*{s})",
    "seq_div": "({s}/2)",
    "seq_rdiv": "(1.0/{s})",
    "seq_mod": "({s}%2)",
    "seq_pow": "({s}**2)",
    "seq_neg": "(-{s})",
    "agg_only": "{s}.Aggregate(lambda a, b: a + b)",
    "agg_func_seed": "{s}.Aggregate(lambda z: z, lambda a, b: a + b)",
    "agg_extra_arg": "{s}.Aggregate(0, lambda a, b: a + b, 1)",
    # sequence operators called with the wrong number of arguments
    "count_extra_arg": "{s}.Count(1)",
    "first_extra_arg": "{s}.First(0)",
    "select_two_lambdas": "{s}.Select(lambda z: z, lambda z: z).Count()",
    "where_no_lambda": "{s}.Where().Count()",
}
PRED_GRAFTS = {
    # an unsupported construct BEHIND a literal that decides the and / or: Python would not evaluate it, the translator still
    # has to translate (and so refuse) it
    "cmp_chain_after_true": "{a} > 1 or True or (0 < {a} < 10)",
    "unknown_function_after_false": "{a} > 1 and False and frobnicate({a}) > 1",
    "cmp_in_after_false": "False and ({a} in {b})",
    "cmp_chain": "0 < {a} < 10",
    "cmp_in": "{a} in {b}",
    "cmp_is": "{a} is {b}",
}
ROW_GRAFTS = ["raw_object", "raw_collection", "raw_event", "column_count_few", "column_count_many"]
_BLK = lambda name, line: {"metadata_type": "inject_code", "name": name, "body_includes": [line]}
_JOB = lambda name, line, deps=(): {"metadata_type": "add_job_script", "name": name, "script": [line], "depends_on": list(deps)}
MD_GRAFTS = {
    # conflicting duplicates that are NOT in first position (same name, different content)
    "md_inject_conflict_later": [_BLK("first", "a.h"), _BLK("dup", "b.h"), _BLK("dup", "c.h")],
    "md_inject_conflict_mixed": [_JOB("j0", "x = 1"), _BLK("dup", "b.h"), _JOB("j1", "y = 2"), _BLK("dup", "c.h")],
    "md_job_conflict_later": [_JOB("j0", "x = 1"), _JOB("dup", "y = 1"), _JOB("dup", "y = 2")],
    "md_job_missing_dependency": [_JOB("j0", "x = 1", ["nothere"])],
    # the missing dependency is carried by only ONE of two identical declarations of a block (either position): the
    # merged block depends on it all the same
    "md_job_missing_dependency_on_repeat": [_JOB("j0", "x = 1"), _JOB("j1", "y = 1"), _JOB("j0", "x = 1", ["nothere"])],
    "md_job_missing_dependency_on_first": [_JOB("j0", "x = 1", ["nothere"]), _JOB("j1", "y = 1", ["j0"]), _JOB("j0", "x = 1")],
    "md_job_cycle_via_repeat": [_JOB("j0", "x = 1"), _JOB("j1", "y = 1", ["j0"]), _JOB("j0", "x = 1", ["j1"])],
    "md_unknown_type": {"metadata_type": "bogus_type", "name": "x"},
    # an unknown (misspelt) metadata type NEXT TO valid blocks, in either position
    "md_unknown_type_after_valid": [_JOB("j0", "x = 1"), {"metadata_type": "add_job_scripts", "name": "j1", "script": ["y = 1"]}],
    "md_unknown_type_before_valid": [{"metadata_type": "add_job_scripts", "name": "j1", "script": ["y = 1"]}, _JOB("j0", "x = 1")],
    "md_unknown_type_between_blocks": [_BLK("b0", "a.h"), {"metadata_type": "inject_codes", "name": "b1", "body_includes": ["b.h"]}, _BLK("b2", "c.h")],
    "md_missing_type": {"name": "x"},
    "md_bad_inject_field": {"metadata_type": "inject_code", "name": "blk", "bogus_field": ["int x;"]},
    "md_collection_extra_key": {"metadata_type": "add_atlas_event_collection_info", "name": "MyJets", "include_files": ["a.h"], "container_type": "xAOD::JetContainer", "element_type": "xAOD::Jet", "contains_collection": True, "what_is_this": 1},
    # a key of ANOTHER backend's collection declaration is as unexpected as any unknown key
    "md_collection_foreign_key": {"metadata_type": "add_atlas_event_collection_info", "name": "MyJets", "include_files": ["a.h"], "container_type": "xAOD::JetContainer", "element_type": "xAOD::Jet", "contains_collection": True, "element_pointer": False},
    "md_cmsaod_collection_foreign_key": {"metadata_type": "add_cms_aod_event_collection_info", "name": "MyMuons", "include_files": ["a.h"], "container_type": "reco::MuonCollection", "element_type": "reco::Muon", "contains_collection": True, "element_pointer": False, "link_libraries": ["MuonLib"]},
    "md_cmsminiaod_collection_foreign_key": {"metadata_type": "add_cms_miniaod_event_collection_info", "name": "MyMuons", "include_files": ["a.h"], "container_type": "pat::MuonCollection", "element_type": "pat::Muon", "contains_collection": True, "element_pointer": False, "link_libraries": ["MuonLib"]},
    "md_collection_elem_mismatch": {"metadata_type": "add_atlas_event_collection_info", "name": "MyJets", "include_files": ["a.h"], "container_type": "xAOD::JetContainer", "contains_collection": True},
}
ALL_GRAFTS = list(SCALAR_GRAFTS) + list(SCALAR_GRAFTS_OBJ) + list(COLL_GRAFTS) + list(SEQ_GRAFTS) + list(PRED_GRAFTS) + ROW_GRAFTS + list(MD_GRAFTS)


def gen_grafted(rng: random.Random, uni: Universe, kind: str, depth: int = 2):
    """-> (src, Q, extra metadata list).  Exactly one construct of class `kind` is grafted."""
    for _ in range(200):
        g = Gen(rng, uni, depth)
        if kind in MD_GRAFTS:
            src, q = g.query()
            q.feat.add("graft:" + kind)
            g_md = MD_GRAFTS[kind]
            return src, q, (list(g_md) if isinstance(g_md, list) else [g_md])
        if kind in ROW_GRAFTS:
            v = g.q.var("e")
            g.cur_event = v
            s = g.objseq(v, [], 1)
            c2, _ = g.scalar(v, [], 1)
            q = g.q
            q.feat.add("graft:" + kind)
            if kind == "raw_object":
                o = q.var("j")
                src = rng.choice([f"ds.Select(lambda {v}: {s}.First())", f"ds.SelectMany(lambda {v}: {s}).Select(lambda {o}: ({o}, {o}.pt()))"])
            elif kind == "raw_collection":
                src = f"ds.Select(lambda {v}: {s})"
            elif kind == "raw_event":
                # the event object itself as (part of) what is written: a Where that nothing follows, the event next to good
                # columns, the event captured as the value of an inner sequence
                o = q.var("j")
                src = rng.choice([f"ds.Where(lambda {v}: {s}.Count() > 0)",
                                  f"ds.Select(lambda {v}: ({s}.Count(), {v}))",
                                  f"ds.Select(lambda {v}: {s}.Select(lambda {o}: {v}))",
                                  f"ds.Select(lambda {v}: {{'n': {s}.Count(), 'ev': {v}}})"])
            elif kind == "column_count_few":
                src = f'ds.Select(lambda {v}: ({s}.Count(), {c2})).AsROOTTTree("f.root", "t", ["only"])'
            elif kind == "column_count_many":
                src = f'ds.Select(lambda {v}: {s}.Count()).AsROOTTTree("f.root", "t", ["a", "b"])'
            return src, q, []
        g.graft = kind
        src, q = g.query()
        if g.graft_done:
            return src, q, []
    raise RuntimeError("could not place graft " + kind)
