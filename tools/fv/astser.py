"""Serialisation of the AST handed to write_cpp_files (after apply_ast_transformations) and of the type /
namespace registries, for the kind-level model coq/Model/KindModel.v."""
import ast
from typing import Any, List


def _lit_names(node) -> Any:
    """Column-name argument of ResultTTree: literal list of strings or a single string."""
    try:
        v = ast.literal_eval(node)
    except Exception:  # noqa: BLE001
        return None
    if isinstance(v, str):
        return ["literal", True, 1]
    if isinstance(v, (list, tuple)) and all(isinstance(x, str) for x in v):
        return ["literal", False, len(v)]
    return None


def ser(node) -> Any:
    from func_adl_xAOD.common.cpp_ast import CPPCodeValue
    from func_adl_xAOD.common.cpp_functions import FunctionAST
    import func_adl_xAOD.common.cpp_types as ctyp

    if isinstance(node, ast.Constant):
        v = node.value
        t = "bool" if type(v) is bool else "int" if type(v) is int else "float" if type(v) is float else "str" if type(v) is str else "other"
        return ["const", t]
    if isinstance(node, ast.Name):
        return ["name", node.id]
    if isinstance(node, ast.Attribute):
        return ["attr", ser(node.value), node.attr]
    if isinstance(node, ast.Lambda):
        return ["lambda", [a.arg for a in node.args.args], ser(node.body)]
    if isinstance(node, ast.Call):
        f = node.func
        if isinstance(f, ast.Name) and f.id == "ResultTTree" and len(node.args) == 4:
            names = _lit_names(node.args[1])
            tree = _lit_names(node.args[2])
            args = [ser(node.args[0]), names if names is not None else ser(node.args[1]), tree if tree is not None else ser(node.args[2]), ["const", "str"]]
            return ["call", ["name", "ResultTTree"], args, len(node.keywords)]
        if isinstance(f, ast.Name) and f.id == "EventDataset":
            return ["event"]
        return ["call", ser(f), [ser(a) for a in node.args], len(node.keywords)]
    if isinstance(node, CPPCodeValue):
        rr = node.result_rep(None) if node.result_rep is not None else None  # scope is only stored
        t = rr.cpp_type() if rr is not None else None
        if isinstance(t, ctyp.collection):
            e = t.element_type
            info = [True, t.type, t.p_depth, e.type, e.p_depth]
        else:
            info = [False, t.type if t is not None else "", t.p_depth if t is not None else 0, "", 0]
        inst = [node.replacement_instance_obj[1]] if node.replacement_instance_obj is not None else []
        return ["cppcode"] + info + [len(node.args), inst]
    if isinstance(node, FunctionAST):
        return ["funast", node.cpp_name, str(node.cpp_return_type)]
    if isinstance(node, ast.BinOp):
        return ["binop", type(node.op).__name__, ser(node.left), ser(node.right)]
    if isinstance(node, ast.UnaryOp):
        return ["unop", type(node.op).__name__, ser(node.operand)]
    if isinstance(node, ast.Compare):
        return ["compare", [type(o).__name__ for o in node.ops], ser(node.left), [ser(c) for c in node.comparators]]
    if isinstance(node, ast.BoolOp):
        return ["boolop", type(node.op).__name__, [ser(v) for v in node.values]]
    if isinstance(node, ast.IfExp):
        return ["ifexp", ser(node.test), ser(node.body), ser(node.orelse)]
    if isinstance(node, ast.Subscript):
        return ["subscript", ser(node.value), ser(node.slice)]
    if isinstance(node, ast.Tuple):
        return ["tuple", [ser(e) for e in node.elts]]
    if isinstance(node, ast.List):
        return ["list", [ser(e) for e in node.elts]]
    if isinstance(node, ast.Dict):
        lit = all(isinstance(k, ast.Constant) and isinstance(k.value, str) for k in node.keys if k is not None)
        return ["dict", any(k is None for k in node.keys), lit, [ser(v) for v in node.values]]
    ch = [ser(c) for c in ast.iter_child_nodes(node) if isinstance(c, ast.expr) or isinstance(c, ast.AST) and not isinstance(c, (ast.expr_context, ast.operator, ast.unaryop, ast.cmpop, ast.boolop))]
    return ["other", type(node).__name__, ch]


def registry() -> List[Any]:
    import func_adl_xAOD.common.cpp_types as ctyp

    ms = []
    for t, d in ctyp.g_method_type_dict.items():
        for m, info in d.items():
            r = info.r_type
            if isinstance(r, ctyp.collection):
                ms.append([t, m, True, r.type, r.p_depth, r.element_type.type, r.element_type.p_depth])
            else:
                ms.append([t, m, False, r.type, r.p_depth, "", 0])
    nss: List[List[str]] = []
    ens: List[Any] = []

    def walk(ns, path):
        nss.append(path)
        for n, e in ns.enums.items():
            ens.append([path + [n], list(e.values)])
        for n, sub in ns.names_spaces.items():
            walk(sub, path + [n])

    for n, ns in getattr(ctyp, "g_toplevel_ns", {}).items():
        walk(ns, [n])
    return [ms, nss, ens]
