"""Shared machinery of every check: build of the Coq development against the current /repo,
model process, proof-status extraction, verdict protocol, evidence writing."""
import fcntl
import hashlib
import json
import os
import re
import subprocess
import sys
import time
from dataclasses import dataclass, field
from pathlib import Path
from typing import Any, Dict, List, Optional

from . import sexp

VERIF = Path(__file__).resolve().parents[2]
REPO = Path(os.environ.get("FV_REPO", "/repo"))
COQ = VERIF / "coq"
BUILD = VERIF / "build"
OCAML_BUILD = BUILD / "ocaml"
EVIDENCE = VERIF / "evidence"
REPLAYS = VERIF / "replays"
KNOWN = VERIF / "known_findings.json"
PY = "/venv/bin/python"

ALLOWED_STD_AXIOMS = {
    # standard-library axioms a theorem may depend on (each is named in the trusted base when it appears)
    "functional_extensionality_dep",
    "FunctionalExtensionality.functional_extensionality_dep",
    "Classical_Prop.classic",
    "classic",
    "proof_irrelevance",
    "ProofIrrelevance.proof_irrelevance",
    "JMeq_eq",
    "JMeq.JMeq_eq",
    "Eqdep.Eq_rect_eq.eq_rect_eq",
    "eq_rect_eq",
    "propositional_extensionality",
}

FORBIDDEN = re.compile(
    r"\b(Admitted|admit|Axiom|Axioms|Parameter|Parameters|Conjecture|Conjectures|Admit Obligations|"
    r"Unset Guard Checking|Unset Positivity Checking|Unset Universe Checking|bypass_check|"
    r"type-in-type|impredicative-set|native_compute)\b"
)


def log(*a):
    print(*a, file=sys.stderr, flush=True)


# --------------------------------------------------------------------------------------------
# build
# --------------------------------------------------------------------------------------------
def _run(cmd, cwd=None, timeout=1800, env=None) -> subprocess.CompletedProcess:
    return subprocess.run(
        cmd, cwd=cwd, timeout=timeout, env=env, text=True, stdout=subprocess.PIPE, stderr=subprocess.STDOUT
    )


def coq_sources() -> List[str]:
    """All .v files of the development in _CoqProject order (gen/ files included)."""
    out = []
    for ln in (COQ / "_CoqProject").read_text().splitlines():
        ln = ln.strip()
        if ln.endswith(".v"):
            out.append(ln)
    return out


def hygiene() -> List[str]:
    """Grep gate: forbidden commands anywhere in the development (comments are stripped first)."""
    bad = []
    for f in coq_sources():
        p = COQ / f
        if not p.exists():
            continue
        txt = p.read_text()
        # strip (possibly nested) comments
        out, depth, i = [], 0, 0
        while i < len(txt):
            if txt.startswith("(*", i):
                depth += 1
                i += 2
            elif txt.startswith("*)", i) and depth > 0:
                depth -= 1
                i += 2
            else:
                if depth == 0:
                    out.append(txt[i])
                i += 1
        code = "".join(out)
        # string literals may legitimately contain words; drop them
        code = re.sub(r'"(?:[^"]|"")*"', '""', code)
        for m in FORBIDDEN.finditer(code):
            bad.append(f"{f}: {m.group(0)}")
        # Variable/Hypothesis outside a section
        sec = 0
        for ln in code.splitlines():
            s = ln.strip()
            if re.match(r"Section\b", s):
                sec += 1
            elif re.match(r"End\b", s) and sec > 0:
                sec -= 1
            elif sec == 0 and re.match(r"(Variable|Variables|Hypothesis|Hypotheses|Context)\b", s):
                bad.append(f"{f}: {s[:40]} outside a section")
    return bad


@dataclass
class BuildStatus:
    ok_files: List[str]
    failed: Dict[str, str]  # .v file -> first error text
    gen_errors: Dict[str, str]  # generated file -> translator refusal
    model_ok: bool
    log: str
    wall_s: float


_BUILD_CACHE: Optional[BuildStatus] = None


def ensure_build(clean: bool = False) -> BuildStatus:
    """Regenerate gen/*.v from the current /repo, build all .vo (full build, never -vos), extract the
    executable models and compile the OCaml driver.  Serialised by a file lock; incremental."""
    global _BUILD_CACHE
    if _BUILD_CACHE is not None and not clean:
        return _BUILD_CACHE
    BUILD.mkdir(exist_ok=True)
    OCAML_BUILD.mkdir(parents=True, exist_ok=True)
    t0 = time.time()
    with open(BUILD / ".lock", "w") as lk:
        fcntl.flock(lk, fcntl.LOCK_EX)
        from . import regen

        gen_errors = regen.regenerate_all()
        logs = []
        if clean:
            _run(["make", "clean"], cwd=COQ, timeout=300)
        if not (COQ / "Makefile").exists() or (COQ / "Makefile").stat().st_mtime < (COQ / "_CoqProject").stat().st_mtime:
            r = _run(["coq_makefile", "-f", "_CoqProject", "-o", "Makefile"], cwd=COQ, timeout=120)
            logs.append(r.stdout)
        r = _run(["timeout", "3000", "make", "-k", "-j16"], cwd=COQ, timeout=3100)
        logs.append(r.stdout)
        failed: Dict[str, str] = {}
        for m in re.finditer(r'File "\./([^"]+\.v)", line (\d+), characters [^\n]*\n((?:(?!File "|make).*\n){0,12})', r.stdout):
            f = m.group(1)
            if f not in failed and "Error" in m.group(3):
                failed[f] = f"line {m.group(2)}: " + m.group(3).strip()[:600]
        ok_files = []
        for f in coq_sources():
            vo = COQ / (f[:-2] + ".vo")
            src = COQ / f
            if vo.exists() and src.exists() and vo.stat().st_mtime >= src.stat().st_mtime and f not in failed:
                ok_files.append(f)
            elif f not in failed:
                failed.setdefault(f, "not built (a dependency failed or the file is missing)")
        # extraction + driver, only when something changed
        model_ok = True
        ext_vo = COQ / "Extract" / "Extract.vo"
        exe = OCAML_BUILD / "fvmodel"
        main_src = VERIF / "ocaml" / "main.ml"
        if "Extract/Extract.v" in failed or not ext_vo.exists():
            model_ok = False
        else:
            stamp = OCAML_BUILD / ".stamp"
            want = f"{ext_vo.stat().st_mtime_ns}:{main_src.stat().st_mtime_ns}"
            if not exe.exists() or not stamp.exists() or stamp.read_text() != want:
                r1 = _run(
                    ["timeout", "600", "coqc", "-Q", str(COQ), "FV", "-o", str(OCAML_BUILD / "Extract.vo"), str(COQ / "Extract" / "Extract.v")],
                    cwd=OCAML_BUILD,
                    timeout=700,
                )
                logs.append(r1.stdout)
                (OCAML_BUILD / "main.ml").write_text(main_src.read_text())
                r2 = _run(
                    ["timeout", "600", "ocamlfind", "ocamlopt", "-w", "-a", "fvmodel.mli", "fvmodel.ml", "main.ml", "-o", "fvmodel"],
                    cwd=OCAML_BUILD,
                    timeout=700,
                )
                logs.append(r2.stdout)
                if r1.returncode != 0 or r2.returncode != 0 or not exe.exists():
                    model_ok = False
                else:
                    stamp.write_text(want)
        fcntl.flock(lk, fcntl.LOCK_UN)
    _BUILD_CACHE = BuildStatus(ok_files, failed, gen_errors, model_ok, "\n".join(logs), time.time() - t0)
    return _BUILD_CACHE


def dependency_cone(vfile: str) -> List[str]:
    """Transitive dependencies of a .v file inside the development (via coqdep)."""
    r = _run(["coqdep", "-Q", ".", "FV", "-sort", vfile], cwd=COQ, timeout=120)
    files = [x for x in r.stdout.split() if x.endswith(".v")]
    return [f[2:] if f.startswith("./") else f for f in files]


@dataclass
class ProofStatus:
    file: str
    theorems: List[str]
    obligations: int
    discharged: int
    assumptions: Dict[str, str]  # theorem -> Print Assumptions text
    axioms_used: List[str]
    broken: Optional[str]  # description of what no longer checks
    checker_cmd: str
    output: str


def proof_status(prop_file: str, build: BuildStatus) -> ProofStatus:
    """Re-run coqc on Properties/Cxx.v (its dependencies come from the build) and read off which
    theorems the kernel accepted and what each depends on."""
    src = (COQ / prop_file).read_text()
    theorems = re.findall(r"^\s*(?:Theorem|Example)\s+([A-Za-z0-9_']+)", src, flags=re.M)
    cone = dependency_cone(prop_file)
    broken_dep = [f for f in cone if f in build.failed and f != prop_file]
    checker_cmd = f"cd {COQ} && make (full .vo build) && coqc -Q . FV {prop_file}"
    if broken_dep:
        f = broken_dep[0]
        thm = _first_failing_name(f, build.failed[f])
        return ProofStatus(prop_file, theorems, len(theorems), 0, {}, [], f"{f}: {thm}: {build.failed[f]}", checker_cmd, "")
    out_dir = BUILD / f"prop_{os.getpid()}"
    out_dir.mkdir(parents=True, exist_ok=True)
    out_vo = out_dir / (Path(prop_file).stem + ".vo")
    cmd = ["timeout", "900", "coqc", "-Q", ".", "FV", "-o", str(out_vo), prop_file]
    r = _run(cmd, cwd=COQ, timeout=1000)
    import shutil

    shutil.rmtree(out_dir, ignore_errors=True)
    out = r.stdout
    assumptions: Dict[str, str] = {}
    axioms: List[str] = []
    # Print Assumptions outputs appear in order of the commands in the file
    pa_names = re.findall(r"^\s*Print Assumptions\s+([A-Za-z0-9_']+)", src, flags=re.M)
    blocks = re.split(r"(?m)^(?=Closed under the global context|Axioms:)", out)
    blocks = [b for b in blocks if b.startswith("Closed under") or b.startswith("Axioms:")]
    for name, b in zip(pa_names, blocks):
        assumptions[name] = b.strip()
        if b.startswith("Axioms:"):
            for m in re.finditer(r"^([A-Za-z0-9_.']+)\s*:", b[len("Axioms:"):], flags=re.M):
                axioms.append(m.group(1))
    broken = None
    discharged = len(theorems)
    if r.returncode != 0:
        m = re.search(r'line (\d+), characters', out)
        line = int(m.group(1)) if m else 0
        before = src.splitlines()[: max(line, 1)]
        done = re.findall(r"^\s*(?:Theorem|Example)\s+([A-Za-z0-9_']+)", "\n".join(before), flags=re.M)
        failing = done[-1] if done else "?"
        discharged = max(len(done) - 1, 0)
        broken = f"{prop_file}: {failing}: " + out.strip()[-600:]
    elif len(blocks) < len(pa_names):
        broken = f"{prop_file}: Print Assumptions output missing"
    bad_ax = [a for a in axioms if a.split(".")[-1] not in {x.split(".")[-1] for x in ALLOWED_STD_AXIOMS}]
    if bad_ax and broken is None:
        broken = f"{prop_file}: theorem depends on non-standard axioms {bad_ax}"
    return ProofStatus(prop_file, theorems, len(theorems), discharged, assumptions, sorted(set(axioms)), broken, checker_cmd, out)


def coqchk(prop_file: str) -> Dict[str, Any]:
    """Independent re-check of the compiled property file and everything it depends on (thorough tier):
    `coqchk -o` prints the axioms the checked library set relies on."""
    mod = "FV." + prop_file[:-2].replace("/", ".")
    t0 = time.time()
    try:
        r = _run(["timeout", "1500", "coqchk", "-silent", "-o", "-Q", ".", "FV", mod], cwd=COQ, timeout=1600)
    except subprocess.TimeoutExpired:
        return {"ok": False, "output": "coqchk timed out", "wall_s": round(time.time() - t0, 1)}
    out = r.stdout.strip()
    tail = out[-1500:]
    return {"ok": r.returncode == 0, "cmd": f"cd {COQ} && coqchk -silent -o -Q . FV {mod}", "output_tail": tail, "wall_s": round(time.time() - t0, 1)}


def _first_failing_name(vfile: str, err: str) -> str:
    m = re.match(r"line (\d+):", err)
    if not m:
        return "?"
    line = int(m.group(1))
    try:
        src = (COQ / vfile).read_text().splitlines()[:line]
    except OSError:
        return "?"
    names = re.findall(r"^\s*(?:Theorem|Lemma|Example|Definition|Fixpoint|Corollary)\s+([A-Za-z0-9_']+)", "\n".join(src), flags=re.M)
    return names[-1] if names else "?"


# --------------------------------------------------------------------------------------------
# model process
# --------------------------------------------------------------------------------------------
class Model:
    """The extracted executable model (one request per line)."""

    def __init__(self):
        exe = OCAML_BUILD / "fvmodel"
        if not exe.exists():
            raise RuntimeError("model executable missing (extraction or OCaml build failed)")
        self.p = subprocess.Popen([str(exe)], stdin=subprocess.PIPE, stdout=subprocess.PIPE, text=True, bufsize=1)

    def call(self, cmd: str, arg) -> Any:
        self.p.stdin.write(sexp.dumps([cmd, arg]) + "\n")
        self.p.stdin.flush()
        ln = self.p.stdout.readline()
        if not ln:
            raise RuntimeError(f"model process died on {cmd}")
        return sexp.loads(ln.strip())

    def call_many(self, cmd: str, args: List[Any]) -> List[Any]:
        return [self.call(cmd, a) for a in args]

    def close(self):
        try:
            self.p.stdin.close()
            self.p.wait(timeout=10)
        except Exception:
            self.p.kill()


# --------------------------------------------------------------------------------------------
# results, verdicts, evidence
# --------------------------------------------------------------------------------------------
@dataclass
class Violation:
    key: str  # identifies the failing input class (matched against known_findings.json)
    what: str  # one line for humans
    replay: Dict[str, Any]  # everything needed to re-run the case
    no_failing_input: bool = False


@dataclass
class Outcome:
    evaluations: int = 0
    distinct_nontrivial: int = 0
    rule: str = ""
    samples: List[Any] = field(default_factory=list)
    violations: List[Violation] = field(default_factory=list)
    correspondence_breaks: List[Dict[str, Any]] = field(default_factory=list)
    traces_validated_against_impl: int = 0
    extra: Dict[str, Any] = field(default_factory=dict)
    exhaustive: bool = False


def known_findings() -> List[Dict[str, Any]]:
    if KNOWN.exists():
        return json.loads(KNOWN.read_text()).get("findings", [])
    return []


def write_replay(pid: str, v: Violation) -> Path:
    REPLAYS.mkdir(exist_ok=True)
    body = json.dumps({"property": pid, "key": v.key, "what": v.what, "no_failing_input_found": v.no_failing_input, **v.replay}, indent=1, sort_keys=True, default=str)
    h = hashlib.sha1(body.encode()).hexdigest()[:10]
    p = REPLAYS / f"{pid}-{h}.json"
    p.write_text(body)
    return p


def finish(pid: str, tier: str, seed: int, t0: float, ps: Optional[ProofStatus], build: BuildStatus, oc: Outcome,
           trusted_base: List[str], assumptions: List[str], level: str = "proof") -> int:
    """Apply the verdict protocol, write the evidence file, print VIOLATION / KNOWN-FINDING lines."""
    known = [k for k in known_findings() if k.get("property") == pid and k.get("status") == "known"]
    known_keys = {k["key"]: k for k in known}
    new_violations: List[Violation] = []
    known_hits: Dict[str, int] = {}
    for v in oc.violations:
        if v.key in known_keys and not v.no_failing_input:
            known_hits[v.key] = known_hits.get(v.key, 0) + 1
        else:
            new_violations.append(v)
    # safety net of the verdict protocol: a broken theorem, a failed build of the model, a hygiene failure or a
    # model/implementation disagreement must never be hidden behind known-finding hits - if the check itself did
    # not turn it into a violation, it is reported here as `no-failing-input-found`
    if not new_violations:
        what = None
        if ps is not None and ps.broken:
            what = ps.broken
        elif not build.model_ok:
            what = "model executable could not be built"
        elif build_hygiene_cache():
            what = "hygiene gate: " + "; ".join(build_hygiene_cache())
        elif oc.correspondence_breaks:
            what = "correspondence of the model with the implementation: " + json.dumps(oc.correspondence_breaks[0], default=str)[:600]
        if what is not None:
            new_violations.append(Violation(key=f"{pid.lower()}:unproved", what=what, no_failing_input=True,
                                            replay={"broken": what, "searched": f"{oc.evaluations} cases; every disagreement found belongs to a recorded known finding"}))
    lines = []
    for k, n in sorted(known_hits.items()):
        lines.append(f"KNOWN-FINDING: property={pid} {known_keys[k]['what']} [{k}; {n} case(s) this run]")
    # a known finding that no longer reproduces is reported for information only
    for k in known_keys:
        if k not in known_hits:
            lines.append(f"NOTE: property={pid} known finding {k} did not reproduce in this run")
    # de-duplicate violations by key, keep the first (smallest) replay
    seen = set()
    for v in new_violations:
        if v.key in seen:
            continue
        seen.add(v.key)
        p = write_replay(pid, v)
        tail = " no-failing-input-found" if v.no_failing_input else ""
        lines.append(f"VIOLATION property={pid} replay={p}{tail}")
        log(f"  -> {v.what}")
    EVIDENCE.mkdir(exist_ok=True)
    cov: Dict[str, Any] = {
        "evaluations": oc.evaluations,
        "distinct_nontrivial": oc.distinct_nontrivial,
        "rule": oc.rule,
        "samples": oc.samples[:12] if oc.samples else ["(no case was generated: the build or the model failed first)"],
        "traces_validated_against_impl": oc.traces_validated_against_impl,
        "exhaustive": oc.exhaustive,
        "trusted_base": trusted_base,
        "known_finding_hits": known_hits,
        "correspondence_breaks": oc.correspondence_breaks[:5],
        "hygiene_gate": "clean" if not build_hygiene_cache() else build_hygiene_cache(),
        "translator_refusals": build.gen_errors,
        "build_wall_s": round(build.wall_s, 1),
    }
    if ps is not None:
        if tier == "thorough" and ps.broken is None and os.environ.get("FV_NO_COQCHK") != "1":
            cov["coqchk"] = coqchk(ps.file)
            if not cov["coqchk"].get("ok"):
                log("  coqchk did not succeed: " + str(cov["coqchk"].get("output_tail", ""))[-300:])
        cov.update({
            "obligations": ps.obligations,
            "discharged": ps.discharged,
            "checker_cmd": ps.checker_cmd,
            "theorems": ps.theorems,
            "print_assumptions": ps.assumptions,
            "axioms_used": ps.axioms_used,
            "proof_broken": ps.broken,
        })
    cov.update(oc.extra)
    ev = {
        "property_id": pid,
        "tier": tier,
        "seed": seed,
        "level": level,
        "coverage": cov,
        "assumptions": assumptions,
        "wall_s": round(time.time() - t0, 2),
        "violations": len(seen),
    }
    (EVIDENCE / f"{pid}.json").write_text(json.dumps(ev, indent=1, default=str) + "\n")
    for ln in lines:
        print(ln, flush=True)
    return 1 if seen else 0


_HYG: Optional[List[str]] = None


def build_hygiene_cache() -> List[str]:
    global _HYG
    if _HYG is None:
        _HYG = hygiene()
    return _HYG


def impl_env() -> Dict[str, str]:
    env = dict(os.environ)
    env["PYTHONPATH"] = str(REPO)
    env["PYTHONHASHSEED"] = "0"
    env["FV_REPO"] = str(REPO)
    return env
