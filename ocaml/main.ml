(* Driver for the extracted models: reads one S-expression (cmd arg) per line on stdin and prints
   the S-expression returned by Fvmodel.dispatch on one line.  Atoms are double-quoted strings with
   backslash escapes for backslash, double quote, n, r, t and xHH.  Strings of the model are
   char lists (ExtrOcamlString). *)
open Fvmodel

let explode (s : string) : char list = List.init (String.length s) (String.get s)
let implode (l : char list) : string =
  let b = Buffer.create 64 in List.iter (Buffer.add_char b) l; Buffer.contents b

exception Parse of string

let parse (s : string) : sexp =
  let n = String.length s in
  let pos = ref 0 in
  let rec skip () = if !pos < n && (s.[!pos] = ' ' || s.[!pos] = '\t') then (incr pos; skip ()) in
  let hexv c = match c with
    | '0'..'9' -> Char.code c - 48 | 'a'..'f' -> Char.code c - 87 | 'A'..'F' -> Char.code c - 55
    | _ -> raise (Parse "hex") in
  let rec item () =
    skip ();
    if !pos >= n then raise (Parse "eof");
    match s.[!pos] with
    | '(' -> incr pos; let l = items [] in SList l
    | '"' ->
      incr pos;
      let b = Buffer.create 32 in
      let rec go () =
        if !pos >= n then raise (Parse "unterminated string");
        let c = s.[!pos] in
        if c = '"' then incr pos
        else if c = '\\' then begin
          if !pos + 1 >= n then raise (Parse "escape");
          let e = s.[!pos + 1] in
          (match e with
           | 'n' -> Buffer.add_char b '\n'; pos := !pos + 2
           | 'r' -> Buffer.add_char b '\r'; pos := !pos + 2
           | 't' -> Buffer.add_char b '\t'; pos := !pos + 2
           | '\\' -> Buffer.add_char b '\\'; pos := !pos + 2
           | '"' -> Buffer.add_char b '"'; pos := !pos + 2
           | 'x' ->
             if !pos + 3 >= n then raise (Parse "hex escape");
             Buffer.add_char b (Char.chr (16 * hexv s.[!pos + 2] + hexv s.[!pos + 3]));
             pos := !pos + 4
           | _ -> raise (Parse "unknown escape"));
          go ()
        end else (Buffer.add_char b c; incr pos; go ()) in
      go ();
      SAtom (explode (Buffer.contents b))
    | _ -> raise (Parse (Printf.sprintf "unexpected char at %d" !pos))
  and items acc =
    skip ();
    if !pos >= n then raise (Parse "eof in list");
    if s.[!pos] = ')' then (incr pos; List.rev acc)
    else let x = item () in items (x :: acc) in
  let r = item () in
  skip ();
  if !pos <> n then raise (Parse "trailing input");
  r

let rec print (b : Buffer.t) (x : sexp) : unit =
  match x with
  | SAtom a ->
    Buffer.add_char b '"';
    List.iter (fun c ->
        match c with
        | '"' -> Buffer.add_string b "\\\""
        | '\\' -> Buffer.add_string b "\\\\"
        | '\n' -> Buffer.add_string b "\\n"
        | '\r' -> Buffer.add_string b "\\r"
        | '\t' -> Buffer.add_string b "\\t"
        | c when Char.code c < 32 || Char.code c > 126 ->
          Buffer.add_string b (Printf.sprintf "\\x%02x" (Char.code c))
        | c -> Buffer.add_char b c) a;
    Buffer.add_char b '"'
  | SList l ->
    Buffer.add_char b '(';
    List.iteri (fun i y -> if i > 0 then Buffer.add_char b ' '; print b y) l;
    Buffer.add_char b ')'

let () =
  try
    while true do
      let line = input_line stdin in
      let out =
        match parse line with
        | SList [SAtom cmd; arg] -> dispatch cmd arg
        | _ -> SList [SAtom (explode "bad-request")]
        | exception Parse m -> SList [SAtom (explode "parse-error"); SAtom (explode m)] in
      let b = Buffer.create 256 in
      print b out;
      print_string (Buffer.contents b);
      print_newline ()
    done
  with End_of_file -> ()
