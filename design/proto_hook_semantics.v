(* DESIGN APPENDIX, not part of the verification build.  Proof-of-concept for DESIGN.md sections 3.3 and 4.2:
   id-keyed hook semantics, append law, hoist law, a mini translator (hoisted accumulator, loop, if) for
   Count over Where chains with nested predicates, Step A (translator = hook transformer), Step B (semantic
   specs te_spec / tq_spec) and the end-to-end theorem mini_correct.  coqc 8.16.1: all closed under the global context. *)
From Coq Require Import List ZArith Lia Bool Arith.
Import ListNotations.

Definition var := nat.
Definition env := var -> Z.
Definition upd (e : env) (x : var) (v : Z) : env := fun y => if Nat.eqb x y then v else e y.
Lemma upd_same e x v : upd e x v x = v. Proof. unfold upd. now rewrite Nat.eqb_refl. Qed.
Lemma upd_other e x v y : x <> y -> upd e x v y = e y.
Proof. unfold upd. intro H. destruct (Nat.eqb_spec x y); congruence. Qed.

Inductive cexpr := CV (x : var) | CK (z : Z) | CAdd (a b : cexpr).
Fixpoint ev (e : env) (c : cexpr) : Z :=
  match c with CV x => e x | CK z => z | CAdd a b => ev e a + ev e b end.
Fixpoint cvars_lt (n : nat) (c : cexpr) : Prop :=
  match c with CV x => x < n | CK _ => True | CAdd a b => cvars_lt n a /\ cvars_lt n b end.

Definition coll := nat.
Definition bid := nat.

Inductive stmt :=
| SSet (x : var) (c : cexpr)
| SLoop (x : var) (c : coll) (b : block)
| SIf (c : cexpr) (b : block)
with block := Blk (id : bid) (decls : list (var * cexpr)) (body : stmts)
with stmts := SNil | SCons (s : stmt) (r : stmts).

Scheme stmt_mut := Induction for stmt Sort Prop
with block_mut := Induction for block Sort Prop
with stmts_mut := Induction for stmts Sort Prop.
Combined Scheme sbs_mutind from stmt_mut, block_mut, stmts_mut.

Fixpoint sapp (l : stmts) (s : stmt) : stmts :=
  match l with SNil => SCons s SNil | SCons a r => SCons a (sapp r s) end.

Lemma fold_left_ext {A B} (f g : A -> B -> A) l a :
  (forall a b, f a b = g a b) -> fold_left f l a = fold_left g l a.
Proof. intro H; revert a; induction l as [|x l IH]; intro a; cbn; [reflexivity|]. rewrite H. apply IH. Qed.

Definition hook := bid -> env -> env.
Record hooks := { hend : hook; hent : hook }.

Section Sem.
Variable colls : coll -> list Z.

Definition run_decl (d : var * cexpr) (e : env) : env := upd e (fst d) (ev e (snd d)).
Definition run_decls (ds : list (var * cexpr)) (e : env) : env := fold_left (fun e' d => run_decl d e') ds e.

Fixpoint exec_stmt (h : hooks) (s : stmt) (e : env) {struct s} : env :=
  match s with
  | SSet x c => upd e x (ev e c)
  | SLoop x c b => fold_left (fun e' v => exec_block h b (upd e' x v)) (colls c) e
  | SIf c b => if Z.eqb (ev e c) 0 then e else exec_block h b e
  end
with exec_block (h : hooks) (b : block) (e : env) {struct b} : env :=
  match b with Blk id ds body => hend h id (exec_stmts h body (hent h id (run_decls ds e))) end
with exec_stmts (h : hooks) (l : stmts) (e : env) {struct l} : env :=
  match l with SNil => e | SCons s r => exec_stmts h r (exec_stmt h s e) end.

(* append [new] at the end of every block with id t ; hoist a declaration likewise *)
Fixpoint app_stmt (t : bid) (new : stmt) (s : stmt) {struct s} : stmt :=
  match s with
  | SSet x c => SSet x c
  | SLoop x c b => SLoop x c (app_block t new b)
  | SIf c b => SIf c (app_block t new b)
  end
with app_block (t : bid) (new : stmt) (b : block) {struct b} : block :=
  match b with Blk id ds body =>
    let body' := app_stmts t new body in
    Blk id ds (if Nat.eqb id t then sapp body' new else body') end
with app_stmts (t : bid) (new : stmt) (l : stmts) {struct l} : stmts :=
  match l with SNil => SNil | SCons s r => SCons (app_stmt t new s) (app_stmts t new r) end.

Fixpoint hoist_stmt (t : bid) (d : var * cexpr) (s : stmt) {struct s} : stmt :=
  match s with
  | SSet x c => SSet x c
  | SLoop x c b => SLoop x c (hoist_block t d b)
  | SIf c b => SIf c (hoist_block t d b)
  end
with hoist_block (t : bid) (d : var * cexpr) (b : block) {struct b} : block :=
  match b with Blk id ds body =>
    Blk id (if Nat.eqb id t then ds ++ [d] else ds) (hoist_stmts t d body) end
with hoist_stmts (t : bid) (d : var * cexpr) (l : stmts) {struct l} : stmts :=
  match l with SNil => SNil | SCons s r => SCons (hoist_stmt t d s) (hoist_stmts t d r) end.

Definition hupd (f : hook) (t : bid) (g : env -> env) : hook :=
  fun id e => if Nat.eqb id t then f id (g e) else f id e.

Lemma exec_sapp h l s e : exec_stmts h (sapp l s) e = exec_stmt h s (exec_stmts h l e).
Proof. revert e; induction l as [|a r IH]; intro e; cbn; [reflexivity|apply IH]. Qed.

(* ids occurring in a statement (the new one must not contain the target id) *)
Fixpoint ids_stmt (s : stmt) : list bid :=
  match s with SSet _ _ => [] | SLoop _ _ b => ids_block b | SIf _ b => ids_block b end
with ids_block (b : block) : list bid :=
  match b with Blk id _ body => id :: ids_stmts body end
with ids_stmts (l : stmts) : list bid :=
  match l with SNil => [] | SCons s r => ids_stmt s ++ ids_stmts r end.

Lemma exec_hend_irrel :
  (forall s h f g e, (forall id, In id (ids_stmt s) -> forall e', f id e' = g id e') ->
      exec_stmt {| hend := f; hent := hent h |} s e = exec_stmt {| hend := g; hent := hent h |} s e) /\
  (forall b h f g e, (forall id, In id (ids_block b) -> forall e', f id e' = g id e') ->
      exec_block {| hend := f; hent := hent h |} b e = exec_block {| hend := g; hent := hent h |} b e) /\
  (forall l h f g e, (forall id, In id (ids_stmts l) -> forall e', f id e' = g id e') ->
      exec_stmts {| hend := f; hent := hent h |} l e = exec_stmts {| hend := g; hent := hent h |} l e).
Proof.
  apply sbs_mutind; cbn; intros.
  - reflexivity.
  - apply fold_left_ext. intros a v. now apply H.
  - destruct (ev e c =? 0)%Z; [reflexivity|]. now apply H.
  - rewrite (H0 id) by now left. f_equal. apply H. intros i Hi. apply H0. now right.
  - reflexivity.
  - rewrite (H h f g) by (intros i Hi; apply H1; apply in_or_app; now left).
    apply H0. intros i Hi. apply H1. apply in_or_app; now right.
Qed.

Lemma append_law t new :
  (forall s h e, exec_stmt h (app_stmt t new s) e
     = exec_stmt {| hend := hupd (hend h) t (exec_stmt h new); hent := hent h |} s e) /\
  (forall b h e, exec_block h (app_block t new b) e
     = exec_block {| hend := hupd (hend h) t (exec_stmt h new); hent := hent h |} b e) /\
  (forall l h e, exec_stmts h (app_stmts t new l) e
     = exec_stmts {| hend := hupd (hend h) t (exec_stmt h new); hent := hent h |} l e).
Proof.
  apply sbs_mutind; cbn; intros.
  - reflexivity.
  - apply fold_left_ext. intros a v. apply H.
  - destruct (ev e c =? 0)%Z; [reflexivity|]. apply H.
  - unfold hupd at 1. destruct (Nat.eqb id t); cbn.
    + rewrite exec_sapp. now rewrite H.
    + now rewrite H.
  - reflexivity.
  - rewrite H. apply H0.
Qed.

Lemma run_decls_app ds d e : run_decls (ds ++ [d]) e = run_decl d (run_decls ds e).
Proof. unfold run_decls. now rewrite fold_left_app. Qed.

Lemma hoist_law t d :
  (forall s h e, exec_stmt h (hoist_stmt t d s) e
     = exec_stmt {| hend := hend h; hent := hupd (hent h) t (run_decl d) |} s e) /\
  (forall b h e, exec_block h (hoist_block t d b) e
     = exec_block {| hend := hend h; hent := hupd (hent h) t (run_decl d) |} b e) /\
  (forall l h e, exec_stmts h (hoist_stmts t d l) e
     = exec_stmts {| hend := hend h; hent := hupd (hent h) t (run_decl d) |} l e).
Proof.
  apply sbs_mutind; cbn; intros.
  - reflexivity.
  - apply fold_left_ext. intros a v. apply H.
  - destruct (ev e c =? 0)%Z; [reflexivity|]. apply H.
  - rewrite H. unfold hupd. cbn. destruct (Nat.eqb id t) eqn:E; cbn.
    + now rewrite run_decls_app.
    + reflexivity.
  - reflexivity.
  - rewrite H. apply H0.
Qed.

(* ---------------- source language ---------------- *)
Inductive sx := XK (z : Z) | XV (i : nat) | XAdd (a b : sx) | XCount (s : sq)
with sq := QColl (c : coll) | QWhere (s : sq) (p : sx).
Scheme sx_mut := Induction for sx Sort Prop with sq_mut := Induction for sq Sort Prop.
Combined Scheme sxq_mutind from sx_mut, sq_mut.

Fixpoint de (B : list Z) (x : sx) {struct x} : Z :=
  match x with
  | XK z => z | XV i => nth i B 0%Z | XAdd a b => de B a + de B b
  | XCount s => Z.of_nat (length (dq B s))
  end
with dq (B : list Z) (s : sq) {struct s} : list Z :=
  match s with
  | QColl c => colls c
  | QWhere s p => filter (fun v => negb (Z.eqb (de (v :: B) p) 0)) (dq B s)
  end.

(* ---------------- translator ---------------- *)
Record st := { tr : block; cur : bid; vctr : nat; bctr : nat }.

Definition append_here (s : st) (new : stmt) : st :=
  {| tr := app_block (cur s) new (tr s); cur := cur s; vctr := vctr s; bctr := bctr s |}.

Fixpoint te (x : sx) (B : list cexpr) (s : st) {struct x} : cexpr * st :=
  match x with
  | XK z => (CK z, s)
  | XV i => (nth i B (CK 0), s)
  | XAdd a b => let '(ca, s1) := te a B s in let '(cb, s2) := te b B s1 in (CAdd ca cb, s2)
  | XCount q =>
      let c0 := cur s in
      let '(el, s1) := tq q B s in
      let agg := vctr s1 in
      let s2 := {| tr := hoist_block c0 (agg, CK 0) (tr s1); cur := cur s1; vctr := S (vctr s1); bctr := bctr s1 |} in
      let s3 := append_here s2 (SSet agg (CAdd (CV agg) (CK 1))) in
      (CV agg, {| tr := tr s3; cur := c0; vctr := vctr s3; bctr := bctr s3 |})
  end
with tq (q : sq) (B : list cexpr) (s : st) {struct q} : cexpr * st :=
  match q with
  | QColl c =>
      let x := vctr s in let b := bctr s in
      let s1 := append_here s (SLoop x c (Blk b [] SNil)) in
      (CV x, {| tr := tr s1; cur := b; vctr := S x; bctr := S b |})
  | QWhere q p =>
      let '(el, s1) := tq q B s in
      let '(cp, s2) := te p (el :: B) s1 in
      let b := bctr s2 in
      let s3 := append_here s2 (SIf cp (Blk b [] SNil)) in
      (el, {| tr := tr s3; cur := b; vctr := vctr s3; bctr := S b |})
  end.

(* ---------------- step A: the translator as a hook transformer ---------------- *)
Definition loop_sem (h : hooks) (x : var) (c : coll) (b : bid) (e : env) : env :=
  fold_left (fun e' v => hend h b (hent h b (upd e' x v))) (colls c) e.
Definition if_sem (h : hooks) (cp : cexpr) (b : bid) (e : env) : env :=
  if Z.eqb (ev e cp) 0 then e else hend h b (hent h b e).

Fixpoint teS (x : sx) (B : list cexpr) (s : st) (h : hooks) {struct x} : hooks :=
  match x with
  | XK _ | XV _ => h
  | XAdd a b => let '(ca, s1) := te a B s in teS a B s (teS b B s1 h)
  | XCount q =>
      let c0 := cur s in
      let '(el, s1) := tq q B s in
      let agg := vctr s1 in
      tqS q B s {| hend := hupd (hend h) (cur s1) (fun e => upd e agg (e agg + 1));
                   hent := hupd (hent h) c0 (run_decl (agg, CK 0)) |}
  end
with tqS (q : sq) (B : list cexpr) (s : st) (h : hooks) {struct q} : hooks :=
  match q with
  | QColl c => {| hend := hupd (hend h) (cur s) (loop_sem h (vctr s) c (bctr s)); hent := hent h |}
  | QWhere q p =>
      let '(el, s1) := tq q B s in
      let '(cp, s2) := te p (el :: B) s1 in
      tqS q B s (teS p (el :: B) s1
        {| hend := hupd (hend h) (cur s2) (if_sem h cp (bctr s2)); hent := hent h |})
  end.

Definition Sem (s : st) (h : hooks) (e : env) : env := exec_block h (tr s) e.

Lemma stepA :
  (forall x B s h e, Sem (snd (te x B s)) h e = Sem s (teS x B s h) e) /\
  (forall q B s h e, Sem (snd (tq q B s)) h e = Sem s (tqS q B s h) e).
Proof.
  apply sxq_mutind; cbn; intros.
  - reflexivity.
  - reflexivity.
  - destruct (te a B s) as [ca s1] eqn:Ea. destruct (te b B s1) as [cb s2] eqn:Eb. cbn.
    specialize (H0 B s1 h e). rewrite Eb in H0. cbn in H0. rewrite H0.
    specialize (H B s (teS b B s1 h) e). rewrite Ea in H. cbn in H. exact H.
  - destruct (tq s B s0) as [el s1] eqn:Eq. cbn. unfold Sem; cbn.
    destruct (append_law (cur s1) (SSet (vctr s1) (CAdd (CV (vctr s1)) (CK 1)))) as (_ & Hb & _).
    rewrite Hb. destruct (hoist_law (cur s0) (vctr s1, CK 0)) as (_ & Hh & _). rewrite Hh. cbn.
    specialize (H B s0). rewrite Eq in H. cbn in H. unfold Sem in H. rewrite <- H. reflexivity.
  - unfold Sem; cbn.
    destruct (append_law (cur s) (SLoop (vctr s) c (Blk (bctr s) [] SNil))) as (_ & Hb & _).
    rewrite Hb. reflexivity.
  - destruct (tq s B s0) as [el s1] eqn:Eq. destruct (te p (el :: B) s1) as [cp s2] eqn:Ep. cbn.
    unfold Sem; cbn.
    destruct (append_law (cur s2) (SIf cp (Blk (bctr s2) [] SNil))) as (_ & Hb & _).
    rewrite Hb.
    specialize (H0 (el :: B) s1). rewrite Ep in H0. cbn in H0. unfold Sem in H0. rewrite H0.
    specialize (H B s0). rewrite Eq in H. cbn in H. unfold Sem in H. rewrite H. reflexivity.
Qed.

(* ---------------- step B: semantics of the hook transformers ---------------- *)
Definition triv (h : hooks) (id : bid) := (forall e, hend h id e = e) /\ (forall e, hent h id e = e).
Definition same_at (h h' : hooks) (id : bid) := (forall e, hend h' id e = hend h id e) /\ (forall e, hent h' id e = hent h id e).
Definition outside (lo hi : nat) (y : var) := y < lo \/ hi <= y.

Lemma ev_agree c n e e' : cvars_lt n c -> (forall y, y < n -> e y = e' y) -> ev e c = ev e' c.
Proof. induction c; cbn; intros H A; [now apply A|reflexivity|]. destruct H. now rewrite IHc1, IHc2. Qed.
Lemma map_ev_agree B n e e' : Forall (cvars_lt n) B -> (forall y, y < n -> e y = e' y) -> map (ev e) B = map (ev e') B.
Proof. induction 1; cbn; intro A; [reflexivity|]. f_equal; [now apply ev_agree with n|now apply IHForall]. Qed.
Lemma cvars_lt_mono c n m : n <= m -> cvars_lt n c -> cvars_lt m c.
Proof. induction c; cbn; intros; [lia|trivial|]. destruct H0; split; auto. Qed.
Lemma Forall_cvars_mono B n m : n <= m -> Forall (cvars_lt n) B -> Forall (cvars_lt m) B.
Proof. intros L H. eapply Forall_impl; [|exact H]. intros. now apply cvars_lt_mono with n. Qed.

Fixpoint base (q : sq) : coll := match q with QColl c => c | QWhere q _ => base q end.

Definition step (K : env -> env) (GP : env -> Z -> env * bool) (e' : env) (v : Z) : env :=
  let '(e1, ok) := GP e' v in if ok then K e1 else e1.

(* specification of a scalar translation *)
Definition te_spec (x : sx) (B : list cexpr) (s : st) : Prop :=
  forall h, let '(c, s') := te x B s in let h' := teS x B s h in
  Forall (cvars_lt (vctr s)) B -> cur s < bctr s ->
  (forall id, bctr s <= id < bctr s' -> triv h id) ->
  vctr s <= vctr s' /\ bctr s <= bctr s' /\ cur s' = cur s /\ cvars_lt (vctr s') c /\
  (forall id, id < bctr s -> id <> cur s -> same_at h h' id) /\
  exists Init Code,
    (forall e, hent h' (cur s) e = hent h (cur s) (Init e)) /\
    (forall e, hend h' (cur s) e = hend h (cur s) (Code e)) /\
    (forall e y, outside (vctr s) (vctr s') y -> Init e y = e y) /\
    (forall e0 e, (forall y, vctr s <= y < vctr s' -> e y = Init e0 y) ->
        (forall y, outside (vctr s) (vctr s') y -> Code e y = e y) /\
        ev (Code e) c = de (map (ev e) B) x).

Definition tq_spec (q : sq) (B : list cexpr) (s : st) : Prop :=
  forall h, let '(el, s') := tq q B s in let h' := tqS q B s h in
  Forall (cvars_lt (vctr s)) B -> cur s < bctr s ->
  (forall id, bctr s <= id < bctr s' -> id <> cur s' -> triv h id) ->
  let K := fun e => hend h (cur s') (hent h (cur s') e) in
  (forall e y, y < vctr s' -> K e y = e y) ->
  vctr s <= vctr s' /\ bctr s <= cur s' < bctr s' /\ cvars_lt (vctr s') el /\
  (forall id, id < bctr s -> id <> cur s -> same_at h h' id) /\
  (forall e, hent h' (cur s) e = hent h (cur s) e) /\
  exists GP,
    (forall e, hend h' (cur s) e = hend h (cur s) (fold_left (step K GP) (colls (base q)) e)) /\
    (forall e' v y, outside (vctr s) (vctr s') y -> fst (GP e' v) y = e' y) /\
    (forall e' v, ev (fst (GP e' v)) el = v) /\
    (forall e' e'' v, (forall y, y < vctr s -> e' y = e'' y) -> snd (GP e' v) = snd (GP e'' v)) /\
    (forall e', dq (map (ev e') B) q = filter (fun v => snd (GP e' v)) (colls (base q))).

Lemma same_at_refl h id : same_at h h id. Proof. split; reflexivity. Qed.
Lemma nth_cvars B n i : Forall (cvars_lt n) B -> cvars_lt n (nth i B (CK 0)).
Proof. intro H. revert i; induction H; intros [|i]; cbn; auto. Qed.

Lemma filter_true {A} (l : list A) : filter (fun _ => true) l = l.
Proof. induction l; cbn; congruence. Qed.
Lemma hupd_other f t g id e : id <> t -> hupd f t g id e = f id e.
Proof. unfold hupd. intro H. destruct (Nat.eqb_spec id t); congruence. Qed.
Lemma hupd_same f t g e : hupd f t g t e = f t (g e).
Proof. unfold hupd. now rewrite Nat.eqb_refl. Qed.

Lemma mono_all :
  (forall x B s, vctr s <= vctr (snd (te x B s)) /\ bctr s <= bctr (snd (te x B s)) /\ cur (snd (te x B s)) = cur s) /\
  (forall q B s, vctr s <= vctr (snd (tq q B s)) /\ bctr s <= cur (snd (tq q B s)) < bctr (snd (tq q B s))
                 /\ cvars_lt (vctr (snd (tq q B s))) (fst (tq q B s))).
Proof.
  apply sxq_mutind; cbn; intros.
  - lia. - lia.
  - destruct (te a B s) as [ca s1] eqn:Ea. destruct (te b B s1) as [cb s2] eqn:Eb. cbn.
    specialize (H B s). specialize (H0 B s1). rewrite Ea in H. rewrite Eb in H0. cbn in *. intuition congruence || lia.
  - destruct (tq s B s0) as [el s1] eqn:Eq. cbn. specialize (H B s0). rewrite Eq in H. cbn in H. lia.
  - repeat split; lia.
  - destruct (tq s B s0) as [el s1] eqn:Eq. destruct (te p (el :: B) s1) as [cp s2] eqn:Ep. cbn.
    specialize (H B s0). specialize (H0 (el :: B) s1). rewrite Eq in H. rewrite Ep in H0. cbn in *.
    destruct H as (? & ? & Hel). repeat split; try lia. eapply cvars_lt_mono; [|exact Hel]. lia.
Qed.

Lemma filter_ext' {A} (f g : A -> bool) l : (forall a, f a = g a) -> filter f l = filter g l.
Proof. intro H. induction l; cbn; [reflexivity|]. rewrite H, IHl. reflexivity. Qed.

Lemma fold_count (lo agg : nat) (GP : env -> Z -> env * bool) :
  lo <= agg ->
  (forall e' v y, outside lo agg y -> fst (GP e' v) y = e' y) ->
  (forall e' e'' v, (forall y, y < lo -> e' y = e'' y) -> snd (GP e' v) = snd (GP e'' v)) ->
  forall l e, let r := fold_left (step (fun e => upd e agg (e agg + 1)) GP) l e in
     (forall y, outside lo (S agg) y -> r y = e y) /\
     r agg = (e agg + Z.of_nat (length (filter (fun v => snd (GP e v)) l)))%Z.
Proof.
  intros Hlo Hf Hs. induction l as [|a l IH]; intro e; cbn.
  - split; [reflexivity|lia].
  - set (e2 := step (fun e => upd e agg (e agg + 1)) GP e a).
    assert (A : forall y, outside lo (S agg) y -> e2 y = e y).
    { intros y Hy. unfold e2, step. destruct (GP e a) as [e1 ok] eqn:E.
      assert (F : e1 y = e y) by (change e1 with (fst (e1, ok)); rewrite <- E; apply Hf; unfold outside in *; lia).
      destruct ok; [|exact F]. rewrite upd_other; [exact F|]. unfold outside in Hy. lia. }
    assert (Bq : e2 agg = (e agg + (if snd (GP e a) then 1 else 0))%Z).
    { unfold e2, step. destruct (GP e a) as [e1 ok] eqn:E. cbn.
      assert (F : e1 agg = e agg) by (change e1 with (fst (e1, ok)); rewrite <- E; apply Hf; unfold outside; lia).
      destruct ok; [rewrite upd_same; lia|lia]. }
    destruct (IH e2) as [I1 I2]. cbn in I1, I2. split.
    + intros y Hy. rewrite I1 by exact Hy. now apply A.
    + rewrite I2, Bq.
      rewrite (filter_ext' (fun v => snd (GP e2 v)) (fun v => snd (GP e v))).
      2:{ intro v. apply Hs. intros y Hy. apply A. unfold outside; lia. }
      destruct (snd (GP e a)); cbn [length]; lia.
Qed.

Lemma filter_filter {A} (f g : A -> bool) l : filter f (filter g l) = filter (fun v => g v && f v) l.
Proof. induction l as [|a l IH]; cbn; [reflexivity|]. destruct (g a); cbn; [destruct (f a)|]; now rewrite IH. Qed.

Lemma spec_all : (forall x B s, te_spec x B s) /\ (forall q B s, tq_spec q B s).
Proof.
  apply sxq_mutind.
  - (* XK *) intros z B s h; cbn. intros HB Hc Ht. repeat split; try lia; try apply same_at_refl.
    exists (fun e => e), (fun e => e). repeat split; reflexivity.
  - (* XV *) intros i B s h; cbn. intros HB Hc Ht. repeat split; try lia; try apply same_at_refl.
    + now apply nth_cvars.
    + exists (fun e => e), (fun e => e). repeat split; try reflexivity.
      change 0%Z with (ev e (CK 0)). now rewrite map_nth.
  - (* XAdd *) intros a IHa b IHb B s h. unfold te_spec in *. cbn.
    destruct (te a B s) as [ca s1] eqn:Ea. destruct (te b B s1) as [cb s2] eqn:Eb. cbn.
    intros HB Hc Ht.
    destruct mono_all as [Mx _].
    pose proof (Mx a B s) as Ma. rewrite Ea in Ma. cbn in Ma. destruct Ma as (Mav & Mab & Mac).
    pose proof (Mx b B s1) as Mb. rewrite Eb in Mb. cbn in Mb. destruct Mb as (Mbv & Mbb & Mbc).
    specialize (IHb B s1 h). rewrite Eb in IHb. cbn in IHb.
    destruct IHb as (_ & _ & _ & Hcb & Sb & Ib & Cb & HIb & HCb & HIbf & HCbs).
    { eapply Forall_cvars_mono; [|exact HB]. lia. }
    { lia. }
    { intros id Hid. apply Ht. lia. }
    set (hb := teS b B s1 h) in *.
    specialize (IHa B s hb). rewrite Ea in IHa. cbn in IHa.
    destruct IHa as (_ & _ & _ & Hca & Sa & Ia & Ca & HIa & HCa & HIaf & HCas).
    { exact HB. } { exact Hc. }
    { intros id Hid. destruct (Sb id) as [S1 S2]; [lia|lia|].
      split; intro e; [rewrite S1|rewrite S2]; apply Ht; lia. }
    split; [lia|]. split; [lia|]. split; [congruence|].
    split. { cbn. split; [eapply cvars_lt_mono; [|exact Hca]; lia|exact Hcb]. }
    split. { intros id Hid Hne. destruct (Sa id Hid Hne) as [A1 A2]. destruct (Sb id) as [B1 B2]; [lia|congruence|].
             split; intro e; [rewrite A1; apply B1|rewrite A2; apply B2]. }
    exists (fun e => Ib (Ia e)), (fun e => Cb (Ca e)).
    split. { intro e. rewrite HIa. rewrite <- Mac. apply HIb. }
    split. { intro e. rewrite HCa. rewrite <- Mac. apply HCb. }
    split. { intros e y Hy. unfold outside in *. rewrite HIbf by (unfold outside; lia). apply HIaf. unfold outside; lia. }
    intros e0 e He.
    destruct (HCas e0 e) as [Oa Va].
    { intros y Hy. rewrite He by lia. apply HIbf. unfold outside; lia. }
    destruct (HCbs (Ia e0) (Ca e)) as [Ob Vb].
    { intros y Hy. rewrite Oa by (unfold outside; lia). apply He. lia. }
    split.
    + intros y Hy. unfold outside in *. rewrite Ob by (unfold outside; lia). apply Oa. unfold outside; lia.
    + cbn. f_equal.
      * rewrite <- Va. apply ev_agree with (vctr s1); [exact Hca|]. intros y Hy. apply Ob. unfold outside; lia.
      * rewrite Vb. f_equal. apply map_ev_agree with (vctr s); [exact HB|]. intros y Hy. apply Oa. unfold outside; lia.
  - (* XCount *) intros q IHq B s h. unfold te_spec, tq_spec in *. cbn.
    destruct (tq q B s) as [el s1] eqn:Eq. cbn.
    intros HB Hc Ht.
    destruct mono_all as [_ Mq]. pose proof (Mq q B s) as M. rewrite Eq in M. cbn in M. destruct M as (Mv & (Mb1 & Mb2) & _).
    set (agg := vctr s1) in *.
    remember {| hend := hupd (hend h) (cur s1) (fun e => upd e agg (e agg + 1));
                hent := hupd (hent h) (cur s) (run_decl (agg, CK 0)) |} as h1 eqn:Eh1.
    assert (Hh1e : forall id e, hend h1 id e = hupd (hend h) (cur s1) (fun e => upd e agg (e agg + 1)) id e) by (subst h1; reflexivity).
    assert (Hh1n : forall id e, hent h1 id e = hupd (hent h) (cur s) (run_decl (agg, CK 0)) id e) by (subst h1; reflexivity).
    clear Eh1.
    assert (Tc : triv h (cur s1)) by (apply Ht; lia).
    assert (HK : forall e, hend h1 (cur s1) (hent h1 (cur s1) e) = upd e agg (e agg + 1)).
    { intro e. rewrite Hh1e, Hh1n. rewrite hupd_same. rewrite (hupd_other _ _ _ (cur s1)) by lia.
      destruct Tc as [T1 T2]. now rewrite T1, T2. }
    specialize (IHq B s h1). rewrite Eq in IHq. cbn in IHq.
    destruct IHq as (_ & _ & Hel & Sq & Hent & GP & HCq & Hfr & Hev & Hst & Hfi).
    { exact HB. } { exact Hc. }
    { intros id Hid Hne. destruct (Ht id) as [T1 T2]; [lia|].
      split; intro e; [rewrite Hh1e, hupd_other by exact Hne; apply T1|rewrite Hh1n, hupd_other by lia; apply T2]. }
    { intros e y Hy. rewrite HK. apply upd_other. unfold agg. lia. }
    split; [lia|]. split; [lia|]. split; [reflexivity|]. split; [cbn; lia|].
    split. { intros id Hid Hne. destruct (Sq id Hid Hne) as [A1 A2].
             split; intro e; [rewrite A1, Hh1e|rewrite A2, Hh1n]; rewrite hupd_other by lia; reflexivity. }
    exists (run_decl (agg, CK 0)), (fold_left (step (fun e => upd e agg (e agg + 1)) GP) (colls (base q))).
    split. { intro e. rewrite Hent, Hh1n. now rewrite hupd_same. }
    split. { intro e. rewrite HCq, Hh1e. rewrite hupd_other by lia. f_equal.
             apply fold_left_ext. intros a v. unfold step. destruct (GP a v) as [e1 ok]. destruct ok; [apply HK|reflexivity]. }
    split. { intros e y Hy. unfold run_decl; cbn. apply upd_other. unfold outside in Hy. lia. }
    intros e0 e He.
    destruct (fold_count (vctr s) agg GP Mv Hfr Hst (colls (base q)) e) as [F1 F2]. cbn in F1, F2.
    split; [exact F1|].
    cbn. rewrite F2. rewrite He by lia. unfold run_decl; cbn. rewrite upd_same. rewrite Hfi. lia.
  - (* QColl *) intros c B s h; cbn. intros HB Hc Ht HK.
    split; [lia|]. split; [lia|]. split; [lia|].
    split. { intros id Hid Hne. split; intro e; cbn; [now rewrite hupd_other|reflexivity]. }
    split; [reflexivity|].
    exists (fun e' v => (upd e' (vctr s) v, true)).
    split. { intro e. rewrite hupd_same. f_equal. }
    split. { intros e' v y Hy; cbn. apply upd_other. unfold outside in Hy. lia. }
    split. { intros e' v; cbn. apply upd_same. }
    split; [reflexivity|].
    intro e'. cbn. now rewrite filter_true.
  - (* QWhere *) intros q IHq p IHp B s h. unfold te_spec, tq_spec in *. cbn.
    destruct (tq q B s) as [el s1] eqn:Eq. destruct (te p (el :: B) s1) as [cp s2] eqn:Ep. cbn.
    intros HB Hc Ht HK.
    destruct mono_all as [Mx Mq].
    pose proof (Mq q B s) as M1. rewrite Eq in M1. cbn in M1. destruct M1 as (Mv1 & (Mb1 & Mb1') & Mel).
    pose proof (Mx p (el :: B) s1) as M2. rewrite Ep in M2. cbn in M2. destruct M2 as (Mv2 & Mb2 & Mc2).
    set (b := bctr s2) in *.
    remember {| hend := hupd (hend h) (cur s2) (if_sem h cp b); hent := hent h |} as h2 eqn:Eh2.
    assert (H2e : forall id e, hend h2 id e = hupd (hend h) (cur s2) (if_sem h cp b) id e) by (subst h2; reflexivity).
    assert (H2n : forall id e, hent h2 id e = hent h id e) by (subst h2; reflexivity).
    clear Eh2.
    assert (HBel : Forall (cvars_lt (vctr s1)) (el :: B)).
    { constructor; [exact Mel|]. eapply Forall_cvars_mono; [|exact HB]. lia. }
    (* the predicate *)
    specialize (IHp (el :: B) s1 h2). rewrite Ep in IHp. cbn in IHp.
    destruct IHp as (_ & _ & _ & Hcp & Sp & Ip & Cp & HIp & HCp & HIpf & HCps).
    { exact HBel. } { lia. }
    { intros id Hid. destruct (Ht id) as [T1 T2]; [lia|lia|].
      split; intro e; [rewrite H2e, hupd_other by lia; apply T1|rewrite H2n; apply T2]. }
    set (h1 := teS p (el :: B) s1 h2) in *.
    assert (Tc1 : triv h (cur s1)) by (apply Ht; lia).
    assert (OutP : forall e y, outside (vctr s1) (vctr s2) y -> Cp (Ip e) y = e y).
    { intros e y Hy. destruct (HCps e (Ip e)) as [O _]; [reflexivity|]. rewrite O by exact Hy. now apply HIpf. }
    assert (HK1 : forall e, hend h1 (cur s1) (hent h1 (cur s1) e) = if_sem h cp b (Cp (Ip e))).
    { intro e. rewrite HIp, HCp. rewrite H2n, H2e. rewrite <- Mc2, hupd_same. destruct Tc1 as [T1 T2].
      rewrite Mc2. now rewrite T2, T1. }
    (* the source sequence *)
    specialize (IHq B s h1). rewrite Eq in IHq. cbn in IHq.
    destruct IHq as (_ & _ & _ & Sq & Hent & GPq & HCq & Hfr & Hev & Hst & Hfi).
    { exact HB. } { exact Hc. }
    { intros id Hid Hne. destruct (Sp id) as [S1 S2]; [lia|exact Hne|].
      destruct (Ht id) as [T1 T2]; [lia|lia|].
      split; intro e; [rewrite S1, H2e, hupd_other by lia; apply T1|rewrite S2, H2n; apply T2]. }
    { intros e y Hy. rewrite HK1. unfold if_sem.
      assert (Cp (Ip e) y = e y) by (apply OutP; unfold outside; lia).
      destruct (ev (Cp (Ip e)) cp =? 0)%Z; [exact H|]. rewrite HK by lia. exact H. }
    (* key fact: value of the predicate code *)
    assert (P : forall e' v, ev (Cp (Ip (fst (GPq e' v)))) cp = de (v :: map (ev e') B) p).
    { intros e' v. set (e1 := fst (GPq e' v)).
      destruct (HCps e1 (Ip e1)) as [_ V]; [reflexivity|]. rewrite V. cbn [map]. f_equal. f_equal.
      - rewrite <- (Hev e' v). apply ev_agree with (vctr s1); [exact Mel|].
        intros y Hy. apply HIpf. unfold outside; lia.
      - transitivity (map (ev e1) B).
        + apply map_ev_agree with (vctr s); [exact HB|]. intros y Hy. apply HIpf. unfold outside; lia.
        + apply map_ev_agree with (vctr s); [exact HB|]. intros y Hy. apply Hfr. unfold outside; lia. }
    split; [lia|]. split; [unfold b; lia|]. split; [eapply cvars_lt_mono; [|exact Mel]; lia|].
    split. { intros id Hid Hne. destruct (Sq id Hid Hne) as [A1 A2]. destruct (Sp id) as [B1 B2]; [lia|lia|].
             split; intro e; [rewrite A1, B1, H2e, hupd_other by lia|rewrite A2, B2, H2n]; reflexivity. }
    split. { intro e. rewrite Hent. destruct (Sp (cur s)) as [_ B2]; [lia|lia|]. now rewrite B2, H2n. }
    exists (fun e' v => let '(e1, ok1) := GPq e' v in
                        if ok1 then let e2 := Cp (Ip e1) in (e2, negb (ev e2 cp =? 0)%Z) else (e1, false)).
    split. { intro e. rewrite HCq. destruct (Sp (cur s)) as [B1 _]; [lia|lia|]. rewrite B1, H2e, hupd_other by lia.
             f_equal. apply fold_left_ext. intros a v. unfold step. destruct (GPq a v) as [e1 ok1]. destruct ok1; [|reflexivity].
             rewrite HK1. unfold if_sem. cbn. destruct (ev (Cp (Ip e1)) cp =? 0)%Z; reflexivity. }
    split. { intros e' v y Hy. pose proof (Hfr e' v y) as F. destruct (GPq e' v) as [e1 ok1]. cbn in F.
             assert (F' : e1 y = e' y) by (apply F; unfold outside in *; lia).
             destruct ok1; cbn; [|exact F']. rewrite OutP by (unfold outside in *; lia). exact F'. }
    split. { intros e' v. pose proof (Hev e' v) as E. destruct (GPq e' v) as [e1 ok1]. cbn in E.
             destruct ok1; cbn; [|exact E]. rewrite <- E. apply ev_agree with (vctr s1); [exact Mel|].
             intros y Hy. apply OutP. unfold outside; lia. }
    split. { intros e' e'' v Ha. pose proof (Hst e' e'' v Ha) as S. pose proof (P e' v) as P1. pose proof (P e'' v) as P2.
             destruct (GPq e' v) as [e1 ok1]. destruct (GPq e'' v) as [e1' ok1']. cbn in *. subst ok1'.
             destruct ok1; cbn; [|reflexivity]. rewrite P1, P2.
             now rewrite (map_ev_agree B (vctr s) e' e'' HB Ha). }
    intro e'. cbn. rewrite Hfi, filter_filter. apply filter_ext'. intro v.
    pose proof (P e' v) as P1. destruct (GPq e' v) as [e1 ok1]. cbn in *. destruct ok1; cbn; [|reflexivity].
    now rewrite P1.
Qed.

(* ---------------- end to end ---------------- *)
Definition s0 : st := {| tr := Blk 0 [] SNil; cur := 0; vctr := 0; bctr := 1 |}.
Definition hid : hooks := {| hend := fun _ e => e; hent := fun _ e => e |}.

Theorem mini_correct (x : sx) (e0 : env) :
  let '(c, s1) := te x [] s0 in
  let final := append_here s1 (SSet (vctr s1) c) in
  exec_block hid (tr final) e0 (vctr s1) = de [] x.
Proof.
  destruct (te x [] s0) as [c s1] eqn:E. cbn.
  destruct spec_all as [Sx _]. destruct stepA as [A _]. destruct mono_all as [Mx _].
  pose proof (Mx x [] s0) as M. rewrite E in M. cbn in M. destruct M as (_ & _ & Mc).
  destruct (append_law (cur s1) (SSet (vctr s1) c)) as (_ & Hb & _). rewrite Hb.
  set (h := {| hend := hupd (hend hid) (cur s1) (exec_stmt hid (SSet (vctr s1) c)); hent := hent hid |}).
  pose proof (A x [] s0 h e0) as A1. rewrite E in A1. cbn in A1. unfold Sem in A1. rewrite A1.
  specialize (Sx x [] s0 h). rewrite E in Sx. cbn in Sx.
  destruct Sx as (_ & _ & _ & Hc & _ & Init & Code & HI & HC & HIf & HS); [constructor|lia|intros; split; intro; cbn; [rewrite hupd_other by lia|]; reflexivity|].
  cbn. rewrite HC, HI. cbn. rewrite Mc. rewrite hupd_same. cbn.
  destruct (HS e0 (Init e0)) as [_ V]; [reflexivity|]. rewrite upd_same. exact V.
Qed.

End Sem.
Print Assumptions mini_correct.
Print Assumptions append_law.
Print Assumptions hoist_law.
