(* Model of event-collection access (C06).
   Hand model of: common/event_collections.py (event_collection_coder.get_collection and the
   per-backend coder overrides), common/cpp_ast.py (process_ast_node, single parameter
   `collection_name`), common/meta_data.py (the three add_..._event_collection_info branches),
   common/executor.py (method_names.update, build_collection_callback of the three executors),
   common/generated_code.py (add_include / add_link_library, declare_variable, declare_class_variable), statement.py (block.emit,
   set_var.emit), cpp_representation.py (dereference_var, base_type_member_access) and
   ast_to_cpp_translator.py (as_sequence / make_sequence_from_collection on the fetched value).
   The tables, coder line templates, container-class formats and metadata key lists are regenerated
   (gen/Collections.v); this file only defines what is done with them.  No proofs here. *)
From FV Require Import Base.Prelude.

(* ------------------------------------------------------------------------------------------ *)
(* whole-word substitution: re.sub(rf"\b{re.escape(w)}\b", repl, s) for a word w made of word    *)
(* characters only (ASCII \w) and a replacement text without backslashes.  A match of \bw\b for  *)
(* such w is exactly a maximal run of word characters equal to w.                                *)
(* ------------------------------------------------------------------------------------------ *)
Definition is_word (c : ascii) : bool :=
  let n := nat_of_ascii c in
  ((48 <=? n)%nat && (n <=? 57)%nat) || ((65 <=? n)%nat && (n <=? 90)%nat)
  || ((97 <=? n)%nat && (n <=? 122)%nat) || (n =? 95)%nat.

Definition snoc (s : string) (c : ascii) : string := s +++ String c "".
Definition flush (w repl cur : string) : string := if String.eqb cur w then repl else cur.

(* cur = the run of word characters read so far *)
Fixpoint sub_run (w repl cur s : string) : string :=
  match s with
  | EmptyString => flush w repl cur
  | String c r =>
    if is_word c then sub_run w repl (snoc cur c) r
    else flush w repl cur +++ String c (sub_run w repl "" r)
  end.
Definition subst_word (w repl s : string) : string := sub_run w repl "" s.

(* does s (continuing the run cur) contain w as a whole word? *)
Fixpoint has_word (w cur s : string) : bool :=
  match s with
  | EmptyString => String.eqb cur w
  | String c r =>
    if is_word c then has_word w (snoc cur c) r
    else String.eqb cur w || has_word w "" r
  end.
Definition word_free (w s : string) : bool := negb (has_word w "" s).

(* ------------------------------------------------------------------------------------------ *)
(* f-string templates of the Python source, as patterns with holes                              *)
(* ------------------------------------------------------------------------------------------ *)
Inductive hole :=
| HCont   (* {container_type}: str() of the container object *)
| HType   (* {....type}: the bare C++ type name of the container *)
| HTok.   (* the token variable name *)
Inductive piece := PLit (s : string) | PHole (h : hole) | PArg (* the substituted parameter *).
Definition pattern := list piece.

Record henv := { e_cont : string; e_type : string; e_tok : string }.
Definition hole_val (e : henv) (h : hole) : string :=
  match h with HCont => e_cont e | HType => e_type e | HTok => e_tok e end.
Fixpoint inst (e : henv) (arg : string) (p : pattern) : string :=
  match p with
  | [] => ""
  | PLit s :: r => s +++ inst e arg r
  | PHole h :: r => hole_val e h +++ inst e arg r
  | PArg :: r => arg +++ inst e arg r
  end.
(* evaluation of the Python f-string: source patterns carry no PArg *)
Definition fstring (e : henv) (p : pattern) : string := inst e "" p.

(* split a literal at the whole-word occurrences of w (used to state what substitution does) *)
Definition flush_p (w cur : string) : pattern := if String.eqb cur w then [PArg] else [PLit cur].
Fixpoint split_run (w cur s : string) : pattern :=
  match s with
  | EmptyString => flush_p w cur
  | String c r =>
    if is_word c then split_run w (snoc cur c) r
    else flush_p w cur ++ PLit (String c "") :: split_run w "" r
  end.
Fixpoint merge_lits (p : pattern) : pattern :=
  match p with
  | [] => []
  | PLit a :: r =>
    match merge_lits r with
    | PLit b :: r' => PLit (a +++ b) :: r'
    | r' => if String.eqb a "" then r' else PLit a :: r'
    end
  | x :: r => x :: merge_lits r
  end.
(* the pattern after substitution of the parameter word: literals are split at the word *)
Fixpoint expand (w : string) (p : pattern) : pattern :=
  match p with
  | [] => []
  | PLit s :: r => split_run w "" s ++ expand w r
  | x :: r => x :: expand w r
  end.
Definition hole_form (w : string) (p : pattern) : pattern := merge_lits (expand w p).

(* a pattern whose holes are fenced by non-word characters of the neighbouring literals *)
Definition first_nonword (s : string) : bool :=
  match s with String c _ => negb (is_word c) | EmptyString => false end.
Fixpoint last_nonword (s : string) : bool :=
  match s with
  | EmptyString => false
  | String c EmptyString => negb (is_word c)
  | String _ r => last_nonword r
  end.
Fixpoint sep_ok (p : pattern) : bool :=
  match p with
  | [] => true
  | PLit l :: r =>
    match r with
    | [] => true
    | PHole _ :: _ => last_nonword l && sep_ok r
    | _ => false
    end
  | PHole _ :: r =>
    match r with
    | [] => true
    | PLit l :: _ => first_nonword l && sep_ok r
    | _ => false
    end
  | PArg :: _ => false
  end.

(* ------------------------------------------------------------------------------------------ *)
(* collection specifications                                                                    *)
(* ------------------------------------------------------------------------------------------ *)
Inductive ckind := KSingle | KColl.
(* a container class of */event_collections.py: __str__ format, token_type format, defaults *)
Record cclass := mk_cclass {
  cc_name : string; cc_kind : ckind; cc_str : pattern; cc_token : option pattern;
  cc_pd_type : nat; cc_pd_elem : nat }.

(* mirrors EventCollectionSpecification with its container object flattened *)
Record cspec := mk_cspec {
  cs_backend : string; cs_name : string; cs_includes : list string;
  cs_kind : ckind; cs_type : string; cs_pd_type : nat; cs_elem : string; cs_pd_elem : nat;
  cs_str : pattern; cs_token : option pattern;
  cs_libs : list string }.

Definition type_env (ty : string) : henv := {| e_cont := ""; e_type := ty; e_tok := "" |}.
(* str(md.container_type) *)
Definition cont_str (s : cspec) : string := fstring (type_env (cs_type s)) (cs_str s).
(* md.container_type.token_type() *)
Definition token_type (s : cspec) : option string :=
  option_map (fstring (type_env (cs_type s))) (cs_token s).

Inductive token_alloc := TokNone | TokPerClass | TokPerCall.
(* a coder: get_running_code's lines, and (miniAOD) the token field initialiser *)
Record coder := mk_coder { cd_lines : list pattern; cd_alloc : token_alloc; cd_init : option pattern }.

(* one add_*_event_collection_info branch of process_metadata *)
Record mdkind := mk_mdkind {
  mk_type : string; mk_keys : list string; mk_bname : string;
  mk_coll : cclass; mk_single : option cclass;
  mk_libs : bool          (* link_libraries is read *);
  mk_elem_ptr : bool      (* element_pointer sets the element pointer depth *) }.

Record backend := mk_backend {
  b_key : string          (* harness name of the executor *);
  b_accepts : string      (* backend_name build_collection_callback insists on *);
  b_table : list cspec; b_coder : coder }.

Record cenv := { c_backends : list backend; c_kinds : list mdkind;
                 c_default_types : list (string * list (string * string * string * nat)) }.

(* ------------------------------------------------------------------------------------------ *)
(* metadata declarations                                                                        *)
(* ------------------------------------------------------------------------------------------ *)
Inductive mval := MStr (s : string) | MBool (b : bool) | MList (l : list string).
Definition mdict := list (string * mval).
Fixpoint md_get (k : string) (d : mdict) : option mval :=
  match d with [] => None | (a, v) :: r => if String.eqb k a then Some v else md_get k r end.
Definition md_has (k : string) (d : mdict) : bool :=
  match md_get k d with Some _ => true | None => false end.
Definition unmodelled {A} : result A := Error (ErrOther "unmodelled").
(* md[k] with the declared value type; a missing key is Python's KeyError *)
Definition req_str (k : string) (d : mdict) : result string :=
  match md_get k d with Some (MStr s) => OK s | Some _ => unmodelled | None => Error ErrKey end.
Definition req_bool (k : string) (d : mdict) : result bool :=
  match md_get k d with Some (MBool b) => OK b | Some _ => unmodelled | None => Error ErrKey end.
Definition req_list (k : string) (d : mdict) : result (list string) :=
  match md_get k d with Some (MList l) => OK l | Some _ => unmodelled | None => Error ErrKey end.

Fixpoint find_kind (t : string) (ks : list mdkind) : option mdkind :=
  match ks with [] => None | k :: r => if String.eqb t (mk_type k) then Some k else find_kind t r end.

Definition unexpected_key (k : mdkind) (d : mdict) : bool :=
  existsb (fun kv => negb (mem_str (fst kv) (mk_keys k))) d.

Definition spec_of_class (backend name : string) (inc : list string) (c : cclass) (ty elem : string)
           (pd_elem : nat) (libs : list string) : cspec :=
  {| cs_backend := backend; cs_name := name; cs_includes := inc; cs_kind := cc_kind c;
     cs_type := ty; cs_pd_type := cc_pd_type c; cs_elem := elem; cs_pd_elem := pd_elem;
     cs_str := cc_str c; cs_token := cc_token c; cs_libs := libs |}.

(* mirrors meta_data.py: process_metadata, branches add_{atlas,cms_aod,cms_miniaod}_event_collection_info *)
Definition process_decl (ks : list mdkind) (d : mdict) : result cspec :=
  match md_get "metadata_type" d with
  | None => Error ErrValue
  | Some (MStr t) =>
    match find_kind t ks with
    | None => unmodelled (* another metadata type: not part of this model *)
    | Some k =>
      if unexpected_key k d then Error ErrValue else
      do cc <- req_bool "contains_collection" d;
      let has_et := md_has "element_type" d in
      if (cc && negb has_et) || (negb cc && has_et) then Error ErrValue else
      do ty <- req_str "container_type" d;
      do '(cls, elem) <- (if cc then do e <- req_str "element_type" d; OK (mk_coll k, e)
                         else match mk_single k with
                              | Some c => OK (c, "")
                              | None => (* md["element_type"] on the collection constructor *) Error ErrKey
                              end);
      do libs <- (if mk_libs k then
                    match md_get "link_libraries" d with
                    | None => OK [] | Some (MList l) => OK l | Some _ => unmodelled end
                  else OK []);
      do pd_elem <- (if mk_elem_ptr k then
                       match md_get "element_pointer" d with
                       | None => OK 0%nat | Some (MBool b) => OK (if b then 1%nat else 0%nat)
                       | Some _ => unmodelled end
                     else OK (cc_pd_elem cls));
      do name <- req_str "name" d;
      do inc <- req_list "include_files" d;
      OK (spec_of_class (mk_bname k) name inc cls ty elem pd_elem libs)
    end
  | Some _ => unmodelled
  end.

Fixpoint process_metadata (ks : list mdkind) (ds : list mdict) : result (list cspec) :=
  match ds with
  | [] => OK []
  | d :: r => do s <- process_decl ks d; do rest <- process_metadata ks r; OK (s :: rest)
  end.

(* mirrors build_collection_callback of the three executors *)
Definition build_collection_callback (B : backend) (s : cspec) : result cspec :=
  if String.eqb (cs_backend s) (b_accepts B) then OK s else Error ErrValue.
Fixpoint check_backends (B : backend) (l : list cspec) : result unit :=
  match l with
  | [] => OK tt
  | s :: r => do _ <- build_collection_callback B s; check_backends B r
  end.

(* the executor's method table restricted to collections: dict(self._method_names) then
   .update(declared) - the last declaration of a name wins, and wins over a built-in *)
Fixpoint find_last (n : string) (l : list cspec) : option cspec :=
  match l with
  | [] => None
  | s :: r => match find_last n r with
              | Some s' => Some s'
              | None => if String.eqb n (cs_name s) then Some s else None
              end
  end.
Definition lookup_collection (B : backend) (declared : list cspec) (n : string) : option cspec :=
  match find_last n declared with
  | Some s => Some s
  | None => find_last n (b_table B)
  end.

(* ------------------------------------------------------------------------------------------ *)
(* names, statements, generated code                                                            *)
(* ------------------------------------------------------------------------------------------ *)
(* unique_name(base): base + str(global counter) *)
Record uname := mk_uname { un_base : string; un_idx : nat }.
Definition render_name (u : uname) : string := un_base u +++ dec_nat (un_idx u).
Definition uname_eqb (a b : uname) : bool := String.eqb (un_base a) (un_base b) && Nat.eqb (un_idx a) (un_idx b).

Definition lower_char (c : ascii) : ascii :=
  let n := nat_of_ascii c in if (65 <=? n)%nat && (n <=? 90)%nat then ascii_of_nat (n + 32) else c.
Fixpoint lower (s : string) : string :=
  match s with EmptyString => "" | String c r => String (lower_char c) (lower r) end.

Record vdecl := mk_vdecl { vd_type : string; vd_name : uname }.
Inductive stmt :=
| SArb (s : string)                         (* statement.arbitrary_statement *)
| SSet (target : uname) (value : string)    (* statement.set_var without conversion *)
| SBlk (vars : list vdecl) (body : list stmt). (* statement.block *)

(* the part of generated_code process_ast_node touches; g_vars/g_stmts are the *current* block *)
Record gstate := mk_gstate {
  g_vars : list vdecl; g_stmts : list stmt;
  g_class : list vdecl; g_book : list stmt;
  g_inc : list string; g_libs : list string;
  g_ctr : nat }.

(* generated_code.add_include / add_link_library *)
Definition add_unique (x : string) (l : list string) : list string :=
  if mem_str x l then l else l ++ [x].
Definition add_all (xs l : list string) : list string := fold_left (fun acc x => add_unique x acc) xs l.

(* ------------------------------------------------------------------------------------------ *)
(* get_collection and process_ast_node                                                          *)
(* ------------------------------------------------------------------------------------------ *)
Inductive arg := AStr (s : string) | AOther.
Record use := mk_use { u_name : string; u_args : list arg }.

Inductive rep_kind := RVar | RColl.
(* the CPPCodeValue get_collection builds *)
Record cpv := mk_cpv {
  v_args : list string; v_includes : list string; v_libs : list string;
  v_code : list string; v_result : string;
  v_rep : rep_kind; v_spec : cspec;
  v_fields : list (vdecl * string) }.

Definition param_name : string := "collection_name".

(* str(container_type) formatted into a line template: the {container_type} placeholder is
   replaced by the class's own __str__ template *)
Definition compose (cls : pattern) (line : pattern) : pattern :=
  merge_lits (flat_map (fun x => match x with PHole HCont => cls | _ => [x] end) line).
Definition line_env (s : cspec) (tok : string) : henv := {| e_cont := ""; e_type := cs_type s; e_tok := tok |}.

(* mirrors event_collection_coder.get_running_code_CPPCodeValue and its miniAOD override;
   tok = the token name in force for this call *)
Definition running_code (cd : coder) (s : cspec) (tok : string) : list string :=
  map (fun p => fstring (line_env s tok) (compose (cs_str s) p)) (cd_lines cd).
Definition token_fields (cd : coder) (s : cspec) (tok : uname) : list (vdecl * string) :=
  match cd_init cd, token_type s with
  | Some p, Some tty =>
    [ (mk_vdecl tty tok, fstring (line_env s (render_name tok)) (compose (cs_str s) p)) ]
  | _, _ => []
  end.

(* the class-level token of the unfixed miniAOD coder: unique_name("token") at import time *)
Definition class_token : uname := mk_uname "token" 0.

(* mirrors event_collections.py: event_collection_coder.get_collection; ctr = unique_name counter *)
Definition get_collection (cd : coder) (s : cspec) (args : list arg) (ctr : nat) : result (cpv * nat) :=
  match args with
  | [AStr _] =>
    let '(tok, ctr') := match cd_alloc cd with
                        | TokPerCall => (mk_uname "token" ctr, S ctr)
                        | _ => (class_token, ctr)
                        end in
    OK ({| v_args := [param_name]; v_includes := cs_includes s; v_libs := cs_libs s;
           v_code := running_code cd s (render_name tok); v_result := "result";
           v_rep := match cs_kind s with KColl => RColl | KSingle => RVar end; v_spec := s;
           v_fields := match cd_alloc cd with TokNone => [] | _ => token_fields cd s tok end |}, ctr')
  | [AOther] => Error ErrValue      (* only acceptable argument is a string *)
  | _ => Error ErrValue             (* only one argument is allowed *)
  end.

(* visit_Constant for a str: f'"{value}"' (no escaping: that is property C18) *)
Definition cpp_string_literal (s : string) : string := """" +++ s +++ """".

(* the fetched value's representation *)
Record rep := mk_rep { r_kind : rep_kind; r_name : uname; r_type : string; r_pd : nat;
                       r_elem : string; r_pd_elem : nat }.

(* mirrors cpp_ast.py: process_ast_node for a collection CPPCodeValue called with one string *)
Definition process_ast_node (v : cpv) (bank : string) (g : gstate) : gstate * rep :=
  let s := v_spec v in
  let var := mk_uname (lower (cs_name s)) (g_ctr g) in
  let ty := cont_str s in
  let lit := cpp_string_literal bank in
  let sub := fun l => fold_left (fun acc a => subst_word a lit acc) (v_args v) l in
  let inner := map (fun l => SArb (sub l)) (v_code v) ++ [SSet var (v_result v)] in
  ({| g_vars := g_vars g ++ [mk_vdecl ty var];
      g_stmts := g_stmts g ++ [SBlk [] inner];
      g_class := g_class g ++ map fst (v_fields v);
      g_book := g_book g ++ map (fun f => SSet (vd_name (fst f)) (sub (snd f))) (v_fields v);
      g_inc := add_all (v_includes v) (g_inc g);
      g_libs := add_all (v_libs v) (g_libs g);
      g_ctr := S (g_ctr g) |},
   {| r_kind := v_rep v; r_name := var; r_type := cs_type s; r_pd := cs_pd_type s;
      r_elem := cs_elem s; r_pd_elem := cs_pd_elem s |}).

(* ------------------------------------------------------------------------------------------ *)
(* what the translator does with the fetched value                                              *)
(* ------------------------------------------------------------------------------------------ *)
(* cpp_representation.dereference_var *)
Definition deref_expr (r : rep) : string :=
  if (0 <? r_pd r)%nat then "*" +++ render_name (r_name r) else render_name (r_name r).
(* ast_to_cpp_translator.as_sequence + make_sequence_from_collection + statement.loop.emit:
   the loop header and the iterator's (type, pointer depth); a cpp_variable raises ValueError *)
Definition as_sequence (r : rep) (iter : string) : result (string * (string * nat)) :=
  match r_kind r with
  | RColl => OK ("for (auto &&" +++ iter +++ " : " +++ deref_expr r +++ ")", (r_elem r, r_pd_elem r))
  | RVar => Error ErrValue
  end.
(* cpp_representation.base_type_member_access *)
Fixpoint wrap_deref (n : nat) (e : string) : string :=
  match n with O => e | S k => wrap_deref k ("(*" +++ e +++ ")") end.
Definition member_access (e : string) (pd extra : nat) : string :=
  let depth := (extra + pd)%nat in
  match depth with O => e +++ "." | S k => wrap_deref k e +++ "->" end.

(* ------------------------------------------------------------------------------------------ *)
(* emission (statement.block.emit, set_var.emit, generated_code.class_declaration_code)         *)
(* ------------------------------------------------------------------------------------------ *)
Definition emit_decl (d : vdecl) : string := vd_type d +++ " " +++ render_name (vd_name d) +++ ";".
Fixpoint emit_stmt (s : stmt) : list string :=
  match s with
  | SArb l => [l]
  | SSet t v => [render_name t +++ " = " +++ v +++ ";"]
  | SBlk vars body =>
    "{" :: map emit_decl vars ++ (fix go (l : list stmt) : list string :=
                                    match l with [] => [] | x :: r => emit_stmt x ++ go r end) body ++ ["}"]
  end.
Definition emit_stmts (l : list stmt) : list string := flat_map emit_stmt l.
Definition class_declaration_code (g : gstate) : list string :=
  map (fun d => emit_decl d +++ String (ascii_of_nat 10) "") (g_class g).

(* ------------------------------------------------------------------------------------------ *)
(* a whole query's collection uses                                                              *)
(* ------------------------------------------------------------------------------------------ *)
Definition bank_of (u : use) : string := match u_args u with [AStr b] => b | _ => "" end.

(* cpp_ast_finder over the query: every call whose name is in the method table is rewritten *)
Fixpoint find_uses (B : backend) (declared : list cspec) (us : list use) (ctr : nat)
  : result (list (cpv * string) * nat) :=
  match us with
  | [] => OK ([], ctr)
  | u :: r =>
    match lookup_collection B declared (u_name u) with
    | None => unmodelled
    | Some s =>
      do '(v, ctr1) <- get_collection (b_coder B) s (u_args u) ctr;
      do '(rest, ctr2) <- find_uses B declared r ctr1;
      OK ((v, bank_of u) :: rest, ctr2)
    end
  end.

Fixpoint translate_uses (vs : list (cpv * string)) (g : gstate) : gstate * list rep :=
  match vs with
  | [] => (g, [])
  | (v, b) :: r =>
    let '(g1, rp) := process_ast_node v b g in
    let '(g2, rps) := translate_uses r g1 in
    (g2, rp :: rps)
  end.

Definition empty_gstate (ctr : nat) : gstate :=
  {| g_vars := []; g_stmts := []; g_class := []; g_book := []; g_inc := []; g_libs := []; g_ctr := ctr |}.

(* executor.apply_ast_transformations (metadata, backend check, finder) then the translation of
   the uses, all in one block (the block structure around them belongs to the rest of the
   translator; process_ast_node only sees the current block) *)
Definition run_query (E : cenv) (B : backend) (mds : list mdict) (us : list use)
  : result (gstate * list rep) :=
  do declared <- process_metadata (c_kinds E) mds;
  do _ <- check_backends B declared;
  do '(vs, ctr) <- find_uses B declared us 1;
  OK (translate_uses vs (empty_gstate ctr)).

(* ------------------------------------------------------------------------------------------ *)
(* table well-formedness checks decided by computation on the regenerated tables                *)
(* ------------------------------------------------------------------------------------------ *)
Definition no_arg (p : pattern) : bool := forallb (fun x => match x with PArg => false | _ => true end) p.
Definition only_holes (ok : hole -> bool) (p : pattern) : bool :=
  forallb (fun x => match x with PHole h => ok h | _ => true end) p.
Definition is_HType (h : hole) : bool := match h with HType => true | _ => false end.
Definition pattern_eqb_piece (a b : piece) : bool :=
  match a, b with
  | PLit x, PLit y => String.eqb x y
  | PHole HCont, PHole HCont | PHole HType, PHole HType | PHole HTok, PHole HTok => true
  | PArg, PArg => true
  | _, _ => false
  end.
Fixpoint pattern_eqb (a b : pattern) : bool :=
  match a, b with
  | [], [] => true
  | x :: a', y :: b' => pattern_eqb_piece x y && pattern_eqb a' b'
  | _, _ => false
  end.
Fixpoint patterns_eqb (a b : list pattern) : bool :=
  match a, b with
  | [], [] => true
  | x :: a', y :: b' => pattern_eqb x y && patterns_eqb a' b'
  | _, _ => false
  end.

(* a class format is usable: holes are the type name only, fenced, and the literal text does not
   contain the parameter word *)
Definition class_pattern_ok (p : pattern) : bool :=
  sep_ok p && only_holes is_HType p && no_arg p && pattern_eqb (hole_form param_name p) (merge_lits p).
Definition spec_ok (backend : string) (s : cspec) : bool :=
  String.eqb (cs_backend s) backend
  && class_pattern_ok (cs_str s)
  && match cs_token s with Some p => class_pattern_ok p | None => true end
  && word_free param_name (cs_type s).

(* ------------------------------------------------------------------------------------------ *)
(* wire                                                                                         *)
(* ------------------------------------------------------------------------------------------ *)
Definition d_mval (s : sexp) : option mval :=
  match s with
  | SList [SAtom "s"; SAtom v] => Some (MStr v)
  | SList [SAtom "b"; v] => option_map MBool (d_bool v)
  | SList [SAtom "l"; v] => option_map MList (d_strs v)
  | _ => None
  end.
Definition d_kv (s : sexp) : option (string * mval) :=
  match s with
  | SList [SAtom k; v] => option_map (fun x => (k, x)) (d_mval v)
  | _ => None
  end.
Definition d_mdict (s : sexp) : option mdict := match s with SList l => d_list d_kv l | _ => None end.
Definition d_arg (s : sexp) : option arg :=
  match s with
  | SList [SAtom "s"; SAtom v] => Some (AStr v)
  | SList [SAtom "o"] => Some AOther
  | _ => None
  end.
Definition d_use (s : sexp) : option use :=
  match s with
  | SList [SAtom n; SList a] => option_map (mk_use n) (d_list d_arg a)
  | _ => None
  end.
Fixpoint find_backend (k : string) (l : list backend) : option backend :=
  match l with [] => None | b :: r => if String.eqb k (b_key b) then Some b else find_backend k r end.

Definition s_decl (d : vdecl) : sexp := SList [SAtom (vd_type d); SAtom (render_name (vd_name d))].
Definition s_rep (r : rep) : sexp :=
  match r_kind r with
  | RVar => SList [SAtom "single"; SAtom (render_name (r_name r));
                   SAtom (member_access (render_name (r_name r)) (r_pd r) 0)]
  | RColl => SList [SAtom "coll"; SAtom (render_name (r_name r)); SAtom (deref_expr r);
                    SAtom (r_elem r); s_nat (r_pd_elem r); SAtom (member_access "i" (r_pd_elem r) 0)]
  end.
(* the projection of the package C06 speaks about *)
Definition s_pkg (x : gstate * list rep) : sexp :=
  let '(g, reps) := x in
  SList [ SList (map s_decl (g_vars g));
          SList (map (fun s => s_strs (emit_stmt s)) (g_stmts g));
          SList (map s_decl (g_class g));
          s_strs (emit_stmts (g_book g));
          s_strs (g_inc g); s_strs (g_libs g);
          SList (map s_rep reps) ].

(* (backend-key (mdict ...) (use ...)) *)
Definition run_query_wire (E : cenv) (a : sexp) : sexp :=
  match a with
  | SList [SAtom bk; SList mds; SList us] =>
    match find_backend bk (c_backends E), d_list d_mdict mds, d_list d_use us with
    | Some B, Some mds', Some us' => s_result s_pkg (run_query E B mds' us')
    | _, _, _ => bad_input
    end
  | _ => bad_input
  end.

(* (w repl s): the substitution alone, compared with re.sub *)
Definition run_subst_wire (a : sexp) : sexp :=
  match a with
  | SList [SAtom w; SAtom repl; SAtom s] => SAtom (subst_word w repl s)
  | _ => bad_input
  end.

Definition s_hole (h : hole) : string := match h with HCont => "cont" | HType => "type" | HTok => "tok" end.
Definition s_pattern (p : pattern) : sexp :=
  SList (map (fun x => match x with
                       | PLit s => SList [SAtom "lit"; SAtom s]
                       | PHole h => SList [SAtom "hole"; SAtom (s_hole h)]
                       | PArg => SList [SAtom "arg"] end) p).
Definition s_spec (s : cspec) : sexp :=
  SList [SAtom (cs_backend s); SAtom (cs_name s); s_strs (cs_includes s);
         SAtom (match cs_kind s with KSingle => "single" | KColl => "coll" end);
         SAtom (cs_type s); s_nat (cs_pd_type s); SAtom (cs_elem s); s_nat (cs_pd_elem s);
         SAtom (cont_str s); SAtom (match token_type s with Some t => t | None => "" end);
         s_strs (cs_libs s)].
(* the regenerated tables as the model sees them (audit listing for the check) *)
Definition run_tables_wire (E : cenv) : sexp :=
  SList (map (fun B => SList [SAtom (b_key B); SAtom (b_accepts B);
                              SList (map s_spec (b_table B));
                              SList (map s_pattern (cd_lines (b_coder B)));
                              SAtom (match cd_alloc (b_coder B) with
                                     | TokNone => "none" | TokPerClass => "per-class" | TokPerCall => "per-call" end)])
             (c_backends E)).
