(* Kind-level model of the translator (ast_to_cpp_translator.py query_ast_visitor + the top-level shape
   checks of executor.py): it computes, for the AST handed to write_cpp_files, WHICH KIND of C++
   representation every node gets (value of a type / collection / sequence / tuple / dict / tree / namespace /
   enum) and, above all, WHERE TRANSLATION RAISES.  No C++ text, no scopes.  Used by C09 (refusal of
   unsupported constructs at any position) and by C01's acceptance clause.
   Mirrors: visit / get_rep (a node whose visitor set no rep is an error), visit_Call dispatch,
   visit_Call_Lambda (frame stack, lazily resolved argument ASTs), visit_Call_Member, visit_function_ast,
   cpp_ast.process_ast_node (argument handling only), call_Select/SelectMany/Where/First/Aggregate/Range/
   ResultTTree/EventDataset, as_sequence, visit_Attribute/Name/Subscript/Tuple/List/Dict/BinOp/UnaryOp/
   IfExp/Compare/BoolOp/Constant, determine_type_mf, get_ttree_type, get_as_ROOT, _is_format_request.
   Executable definitions only; no proofs here. *)
From FV Require Import Base.Prelude.

Inductive kind :=
| KVal (ty : option string) (pd : nat)                 (* cpp_value / cpp_variable of terminal type ty *)
| KEnumVal                                              (* cpp_value of terminal_enum_value *)
| KColl (cty : string) (cpd : nat) (ety : string) (epd : nat)   (* cpp_collection *)
| KSeq (v : kind)                                       (* cpp_sequence with this sequence value *)
| KTuple (ks : list kind)
| KDict (ks : list kind) (keys_literal : bool)
| KTree                                                 (* cpp_ttree_rep (a cpp_value) *)
| KNs (path : list string)
| KEnum (path : list string).

Inductive expr :=
| EConst (tag : string)                                 (* int float str bool | other constant types *)
| EName (x : string)
| EAttr (e : expr) (a : string)
| ECall (f : expr) (args : list expr) (nkw : nat)
| ELambda (params : list string) (body : expr)
| EBinOp (op : string) (a b : expr)                     (* Python operator class name: Add Sub Mult Div Mod Pow ... *)
| EUnOp (op : string) (a : expr)                        (* UAdd USub Not Invert *)
| ECompare (ops : list string) (l : expr) (cs : list expr)
| EBoolOp (op : string) (vs : list expr)
| EIfExp (c a b : expr)
| ESubscript (v i : expr)
| ETuple (es : list expr)
| EList (es : list expr)
| EDict (has_none_key : bool) (keys_literal : bool) (vs : list expr)
| ELiteral (is_str : bool) (n : nat)                    (* a literal list of n strings / a single string, for column names *)
| EOther (cls : string) (children : list expr)          (* any other Python node class *)
| ECppCode (is_coll : bool) (ty : string) (pd : nat) (ety : string) (epd : nat) (nparams : nat) (inst : option string)
| EFunAst (cpp : string) (ret : string)
| EKind (k : kind).                                     (* dummy_ast: a representation computed earlier *)

(* method registry entry: (type, method) -> return kind *)
Record minfo := { mi_coll : bool; mi_ty : string; mi_pd : nat; mi_ety : string; mi_epd : nat }.
Record registry := {
  r_methods : list ((string * string) * minfo);
  r_ns : list (list string);                       (* namespace paths *)
  r_enums : list (list string * list string)       (* enum path (incl. its name) -> value names *)
}.

Fixpoint assoc2 {A} (k : string * string) (l : list ((string * string) * A)) : option A :=
  match l with
  | [] => None
  | ((a, b), v) :: r => if String.eqb a (fst k) && String.eqb b (snd k) then Some v else assoc2 k r
  end.
Definition path_eqb := list_str_eqb.
Fixpoint mem_path (p : list string) (l : list (list string)) : bool :=
  match l with [] => false | q :: r => if path_eqb p q then true else mem_path p r end.
Fixpoint assoc_path {A} (p : list string) (l : list (list string * A)) : option A :=
  match l with [] => None | (q, v) :: r => if path_eqb p q then Some v else assoc_path p r end.

Definition frames := list (list (string * expr)).
Fixpoint frame_lookup (x : string) (f : list (string * expr)) : option expr :=
  match f with [] => None | (y, e) :: r => if String.eqb x y then Some e else frame_lookup x r end.
Fixpoint lookup_name (x : string) (fs : frames) : option expr :=
  match fs with
  | [] => None
  | f :: r => match frame_lookup x f with Some e => Some e | None => lookup_name x r end
  end.
Fixpoint zip_args (ps : list string) (args : list expr) : list (string * expr) :=
  match ps, args with p :: ps', a :: as' => (p, a) :: zip_args ps' as' | _, _ => [] end.

(* rep.as_cpp() : which kinds can be written into C++ text *)
Definition as_cpp (k : kind) : result unit :=
  match k with
  | KVal _ _ | KEnumVal | KColl _ _ _ _ | KTree => OK tt
  | KSeq _ => Error ErrRuntime
  | KTuple _ | KDict _ _ | KNs _ | KEnum _ => Error ErrAttr
  end.
(* rep.cpp_type().type : the type name, as most_accurate_type / determine_type_mf read it *)
Definition type_name (k : kind) : result string :=
  match k with
  | KVal (Some t) _ => OK t
  | KVal None _ => Error ErrRuntime
  | KEnumVal => OK "enum"
  | KColl c _ _ _ => OK c
  | KSeq _ => OK "std::vector"
  | KTree => OK "ttreetfile"
  | KTuple _ | KDict _ _ | KNs _ | KEnum _ => Error ErrAttr
  end.
Definition is_num_type (t : string) : bool := String.eqb t "int" || String.eqb t "float" || String.eqb t "double".
Definition prio (t : string) : nat := if String.eqb t "int" then 0 else if String.eqb t "float" then 1 else 2.
Definition most_accurate (a b : string) : result string :=
  if is_num_type a && is_num_type b then OK (if Nat.ltb (prio a) (prio b) then b else a) else Error ErrAssert.

Definition determine_type_mf (G : registry) (recv : kind) (m : string) : result kind :=
  match type_name recv with
  | Error e => Error e
  | OK t =>
      match assoc2 (t, m) (r_methods G) with
      | Some i => OK (if mi_coll i then KColl (mi_ty i) (mi_pd i) (mi_ety i) (mi_epd i) else KVal (Some (mi_ty i)) (mi_pd i))
      | None => if is_num_type t then Error ErrTranslation else OK (KVal (Some "double") 0)
      end
  end.

Definition is_cpp_value (k : kind) : bool :=
  match k with KVal _ _ | KEnumVal | KColl _ _ _ _ | KTree => true | _ => false end.

(* get_ttree_type *)
Fixpoint seq_tree_ok (k : kind) : bool :=
  match k with
  | KVal (Some _) _ | KEnumVal | KColl _ _ _ _ | KTree => true
  | KSeq v => seq_tree_ok v
  | _ => false
  end.
Definition ttree_type_ok (k : kind) : result unit :=
  match k with
  | KSeq v => match v with
              | KVal _ _ | KEnumVal | KColl _ _ _ _ | KTree | KSeq _ =>
                  if seq_tree_ok v then OK tt else Error ErrRuntime
              | _ => Error ErrRuntime
              end
  | KVal (Some _) _ | KEnumVal | KColl _ _ _ _ | KTree => OK tt
  | KVal None _ => Error ErrValue       (* "dump all variables" message, top level *)
  | _ => Error ErrAttr
  end.

Fixpoint all_ok {A} (f : A -> result unit) (l : list A) : result unit :=
  match l with [] => OK tt | x :: r => do _ <- f x; all_ok f r end.

(* visit_special_BinOp (Pow): only numbers (int, float, double, bool; not pointers, collections, enum values) *)
Definition pow_operand (k : kind) : result unit :=
  match k with
  | KVal (Some t) pd => if Nat.eqb pd 0 && (is_num_type t || String.eqb t "bool") then OK tt else Error ErrValue
  | KVal None _ | KEnumVal | KColl _ _ _ _ | KSeq _ | KTree => Error ErrValue
  | KTuple _ | KDict _ _ | KNs _ | KEnum _ => Error ErrAttr
  end.
Definition known_binop (op : string) : bool :=
  String.eqb op "Add" || String.eqb op "Sub" || String.eqb op "Mult" || String.eqb op "Div" || String.eqb op "Mod".
Definition known_unop (op : string) : bool := String.eqb op "UAdd" || String.eqb op "USub" || String.eqb op "Not".
Definition known_cmp (op : string) : bool :=
  mem_str op ["Lt"; "LtE"; "Gt"; "GtE"; "Eq"; "NotEq"].

Definition event_kind : kind := KSeq (KVal None 0).

Section Visit.
Variable G : registry.

(* book the tree for a sequence rep with the given column count (call_ResultTTree after the source was visited) *)
Definition result_ttree (seq : kind) (ncols : nat) : result kind :=
  match seq with
  | KSeq v =>
      let vals := match v with KTuple ks => ks | _ => [v] end in
      if negb (Nat.eqb (List.length vals) ncols) then Error ErrRuntime
      else do _ <- all_ok ttree_type_ok vals;
           (* code_fill_ttree: a column that is a collection (not a sequence) trips an assertion *)
           if existsb (fun k => match k with KColl _ _ _ _ => true | _ => false end) vals then Error ErrAssert
           else OK KTree
  | _ => Error ErrValue
  end.

Fixpoint visit (fuel : nat) (fs : frames) (e : expr) {struct fuel} : result kind :=
  match fuel with
  | O => Error ErrOutOfFuel
  | S f =>
    let vis := visit f in
    let as_sequence := fun (fs : frames) (e : expr) =>
      do k <- vis fs e;
      match k with
      | KSeq _ => OK k
      | KColl _ _ ety epd => OK (KSeq (KVal (Some ety) epd))
      | _ => Error ErrValue
      end in
    let vis_cpp := fun (fs : frames) (e : expr) => do k <- vis fs e; do _ <- as_cpp k; OK k in
    let vis_all_cpp := fix go (l : list expr) : result unit :=
      match l with [] => OK tt | a :: r => do _ <- vis_cpp fs a; go r end in
    let vis_list := fix go (l : list expr) : result (list kind) :=
      match l with [] => OK [] | a :: r => do k <- vis fs a; do ks <- go r; OK (k :: ks) end in
    (* generic_visit: children are visited, a child without visitor is silently passed over *)
    let generic := fix go (l : list expr) : result unit :=
      match l with
      | [] => OK tt
      | a :: r => match a with
                  | EOther _ _ | ELambda _ _ | ECppCode _ _ _ _ _ _ _ | EFunAst _ _ | ELiteral _ _ => go r
                  | _ => do _ <- vis fs a; go r
                  end
      end in
    match e with
    | EKind k => OK k
    | EConst tag =>
        if String.eqb tag "str" then OK (KVal (Some "string") 0)
        else if String.eqb tag "int" then OK (KVal (Some "int") 0)
        else if String.eqb tag "float" then OK (KVal (Some "double") 0)
        else if String.eqb tag "bool" then OK (KVal (Some "bool") 0)
        else Error ErrValue
    | EName x =>
        match lookup_name x fs with
        | Some e' => vis fs e'
        | None => if mem_path [x] (r_ns G) then OK (KNs [x]) else Error ErrRuntime
        end
    | EAttr o a =>
        do k <- vis fs o;
        match k with
        | KEnumVal => Error ErrValue
        | KVal _ _ | KColl _ _ _ _ | KTree =>
            do r <- determine_type_mf G k a;
            (* the attribute is always wrapped as a cpp_value, even when the declared type is a collection *)
            match r with KColl c pd _ _ => OK (KVal (Some c) pd) | _ => OK r end
        | KNs p => if mem_path (p ++ [a]) (r_ns G) then OK (KNs (p ++ [a]))
                   else match assoc_path (p ++ [a]) (r_enums G) with
                        | Some _ => OK (KEnum (p ++ [a]))
                        | None => Error ErrRuntime
                        end
        | KEnum p => match assoc_path p (r_enums G) with
                     | Some vs => if mem_str a vs then OK KEnumVal else Error ErrRuntime
                     | None => Error ErrRuntime
                     end
        | _ => Error ErrRuntime
        end
    | ECall fn args nkw =>
        match fn with
        | ELambda ps body => vis (zip_args ps args :: fs) body
        | EAttr recv m =>
            do k <- vis fs recv;
            if negb (is_cpp_value k) then Error ErrValue else
            do r <- determine_type_mf G k m;
            do _ <- vis_all_cpp args;
            OK r
        | ECppCode is_coll ty pd ety epd nparams inst =>
            do _ <- match inst with
                    | None => OK tt
                    | Some x => match lookup_name x fs with
                                | Some (EKind k) => as_cpp k
                                | _ => Error ErrAttr
                                end
                    end;
            do _ <- vis_all_cpp (firstn nparams args);
            OK (if is_coll then KColl ty pd ety epd else KVal (Some ty) pd)
        | EFunAst _ ret =>
            do ks <- vis_list args;
            if forallb is_cpp_value ks then OK (KVal (Some ret) 0) else Error ErrRuntime
        | EName g =>
            if String.eqb g "Select" then
              match args with
              | [src; ELambda ps body] =>
                  do s <- as_sequence fs src;
                  match s with
                  | KSeq v => do k <- vis fs (ECall (ELambda ps body) [EKind v] 0); OK (KSeq k)
                  | _ => Error ErrValue
                  end
              | _ => Error ErrAssert
              end
            else if String.eqb g "SelectMany" then
              match args with
              | [src; ELambda ps body] =>
                  do s <- as_sequence fs src;
                  match s with
                  | KSeq v => as_sequence fs (ECall (ELambda ps body) [EKind v] 0)
                  | _ => Error ErrValue
                  end
              | _ => Error ErrAssert
              end
            else if String.eqb g "Where" then
              match args with
              | [src; ELambda ps body] =>
                  do s <- as_sequence fs src;
                  match s with
                  | KSeq v =>
                      do _ <- vis_cpp fs (ECall (ELambda ps body) [EKind v] 0);
                      match v with KSeq _ => Error ErrRuntime | _ => OK (KSeq v) end
                  | _ => Error ErrValue
                  end
              | _ => Error ErrAssert
              end
            else if String.eqb g "First" then
              match args with
              | [src] =>
                  do s <- as_sequence fs src;
                  match s with
                  | KSeq (KVal None _) => Error ErrNotImpl        (* the event stream itself: scope[-1] of the top level *)
                  | KSeq v => OK v
                  | _ => Error ErrValue
                  end
              | _ => Error ErrAssert
              end
            else if String.eqb g "Aggregate" then
              match args with
              | [_; _] => Error ErrNotImpl
              | [src; init; lam] =>
                  match src with ELambda _ _ => Error ErrNotImpl | _ =>
                  do ki <- vis fs init;
                  match lam with
                  | ELambda ps body =>
                      do s <- as_sequence fs src;
                      do ti <- type_name ki;
                      if negb (is_num_type ti) then Error ErrValue else
                      match s with
                      | KSeq v =>
                          do ku <- vis fs (ECall (ELambda ps body) [EKind (KVal (Some ti) 0); EKind v] 0);
                          do tu <- type_name ku;
                          do _ <- as_cpp ku;
                          if String.eqb tu ti then OK (KVal (Some ti) 0)
                          else do t <- most_accurate ti tu; OK (KVal (Some t) 0)
                      | _ => Error ErrValue
                      end
                  | _ => Error ErrAssert
                  end end
              | _ => Error ErrRuntime
              end
            else if String.eqb g "Range" then
              match args with
              | [lo; hi] => do _ <- vis_cpp fs lo; do _ <- vis_cpp fs hi; OK (KSeq (KVal (Some "int") 0))
              | _ => Error ErrAssert
              end
            else if String.eqb g "EventDataset" then OK event_kind
            else if String.eqb g "ResultTTree" then
              match args with
              | [src; ELiteral _ n; ELiteral true _; _] =>
                  do s <- as_sequence fs src;
                  result_ttree s n
              | [_; _; _; _] => Error ErrValue        (* literal_eval of a non-literal *)
              | _ => Error ErrAssert
              end
            else (do _ <- generic args; Error ErrRuntime)
        | _ => (do _ <- generic (fn :: args); Error ErrRuntime)
        end
    | ELambda _ _ => Error ErrRuntime
    | EBinOp op a b =>
        if known_binop op then
          do ka <- vis fs a; do kb <- vis fs b;
          do ta <- type_name ka; do tb <- type_name kb;
          do t <- most_accurate ta tb;
          do _ <- as_cpp ka; do _ <- as_cpp kb;
          OK (KVal (Some (if String.eqb op "Div" then "double" else t)) 0)
        else if String.eqb op "Pow" then
          do ka <- vis fs a; do kb <- vis fs b;
          do _ <- pow_operand ka; do _ <- pow_operand kb;
          do _ <- as_cpp ka; do _ <- as_cpp kb; OK (KVal (Some "double") 0)
        else Error ErrRuntime
    | EUnOp op a =>
        if known_unop op then
          do k <- vis fs a;
          do _ <- (if String.eqb op "Not" then OK tt else pow_operand k);   (* + and - : numbers only *)
          do _ <- as_cpp k; do t <- type_name k; OK (KVal (Some t) 0)
        else Error ErrRuntime
    | ECompare ops l cs =>
        match ops, cs with
        | [op], [c] => do _ <- vis_cpp fs l; do _ <- vis_cpp fs c;
                       if known_cmp op then OK (KVal (Some "bool") 0) else Error ErrKey
        | _, _ => Error ErrRuntime
        end
    | EBoolOp _ vs =>
        do ks <- vis_list vs;
        if forallb is_cpp_value ks then OK (KVal (Some "bool") 0) else Error ErrAttr
    | EIfExp c a b =>
        do kc <- vis fs c; do ka <- vis fs a; do kb <- vis fs b;
        do _ <- as_cpp kc;
        if is_cpp_value ka && is_cpp_value kb then OK (KVal (Some "double") 0) else Error ErrAttr
    | ESubscript v i =>
        do kv <- vis fs v;
        match kv with
        | KColl _ _ ety epd => do _ <- vis_cpp fs i; OK (KVal (Some ety) epd)
        | _ => Error ErrRuntime
        end
    | ETuple es | EList es => do ks <- vis_list es; OK (KTuple ks)
    | EDict has_none lit vs =>
        if has_none then Error ErrValue else do ks <- vis_list vs; OK (KDict ks lit)
    | ELiteral _ _ => Error ErrRuntime
    | EOther _ ch => (do _ <- generic ch; Error ErrRuntime)
    | ECppCode _ _ _ _ _ _ _ | EFunAst _ _ => Error ErrRuntime
    end
  end.

(* executor.write_cpp_files: _is_format_request + get_rep / get_as_ROOT *)
Definition translate (fuel : nat) (top : expr) : result kind :=
  match top with
  | ECall (EName g) args _ =>
      if String.eqb g "ResultTTree" then visit fuel [] top
      else
        do r <- visit fuel [] top;
        match r with
        | KTree => OK KTree
        | KSeq v =>
            match v with
            | KDict ks lit => if lit then result_ttree (KSeq (KTuple ks)) (List.length ks) else Error ErrValue
            | KTuple ks => result_ttree r (List.length ks)
            | KVal _ _ | KEnumVal | KColl _ _ _ _ | KTree | KSeq _ => result_ttree r 1
            | _ => Error ErrValue
            end
        | _ => Error ErrValue
        end
  | _ => Error ErrValue
  end.
End Visit.

(* ---------- wire format ---------- *)
Fixpoint d_expr_fuel (fuel : nat) (s : sexp) {struct fuel} : option expr :=
  match fuel with
  | O => None
  | S f =>
    let dl := fix dl (l : list sexp) : option (list expr) :=
                match l with
                | [] => Some []
                | x :: r => match d_expr_fuel f x, dl r with Some a, Some r' => Some (a :: r') | _, _ => None end
                end in
    match s with
    | SList [SAtom "const"; SAtom t] => Some (EConst t)
    | SList [SAtom "name"; SAtom x] => Some (EName x)
    | SList [SAtom "attr"; e; SAtom a] => option_map (fun e' => EAttr e' a) (d_expr_fuel f e)
    | SList [SAtom "call"; fn; SList args; nkw] =>
        match d_expr_fuel f fn, dl args, d_nat nkw with
        | Some fn', Some a', Some n => Some (ECall fn' a' n) | _, _, _ => None end
    | SList [SAtom "lambda"; ps; b] =>
        match d_strs ps, d_expr_fuel f b with Some ps', Some b' => Some (ELambda ps' b') | _, _ => None end
    | SList [SAtom "binop"; SAtom op; a; b] =>
        match d_expr_fuel f a, d_expr_fuel f b with Some a', Some b' => Some (EBinOp op a' b') | _, _ => None end
    | SList [SAtom "unop"; SAtom op; a] => option_map (EUnOp op) (d_expr_fuel f a)
    | SList [SAtom "compare"; ops; l; SList cs] =>
        match d_strs ops, d_expr_fuel f l, dl cs with
        | Some o', Some l', Some c' => Some (ECompare o' l' c') | _, _, _ => None end
    | SList [SAtom "boolop"; SAtom op; SList vs] => option_map (EBoolOp op) (dl vs)
    | SList [SAtom "ifexp"; c; a; b] =>
        match d_expr_fuel f c, d_expr_fuel f a, d_expr_fuel f b with
        | Some c', Some a', Some b' => Some (EIfExp c' a' b') | _, _, _ => None end
    | SList [SAtom "subscript"; v; i] =>
        match d_expr_fuel f v, d_expr_fuel f i with Some v', Some i' => Some (ESubscript v' i') | _, _ => None end
    | SList [SAtom "tuple"; SList es] => option_map ETuple (dl es)
    | SList [SAtom "list"; SList es] => option_map EList (dl es)
    | SList [SAtom "dict"; hn; lit; SList vs] =>
        match d_bool hn, d_bool lit, dl vs with
        | Some h, Some l', Some v' => Some (EDict h l' v') | _, _, _ => None end
    | SList [SAtom "literal"; st; n] =>
        match d_bool st, d_nat n with Some s', Some n' => Some (ELiteral s' n') | _, _ => None end
    | SList [SAtom "other"; SAtom c; SList ch] => option_map (EOther c) (dl ch)
    | SList [SAtom "cppcode"; ic; SAtom ty; pd; SAtom ety; epd; np; inst] =>
        match d_bool ic, d_nat pd, d_nat epd, d_nat np with
        | Some ic', Some pd', Some epd', Some np' =>
            Some (ECppCode ic' ty pd' ety epd' np' (match inst with SList [SAtom x] => Some x | _ => None end))
        | _, _, _, _ => None
        end
    | SList [SAtom "funast"; SAtom c; SAtom r] => Some (EFunAst c r)
    | SList [SAtom "event"] => Some (EKind event_kind)
    | _ => None
    end
  end.

Fixpoint sdepth (s : sexp) : nat :=
  match s with SAtom _ => 1 | SList l => S (fold_right (fun x acc => Nat.max (sdepth x) acc) 0 l) end.
Definition d_expr (s : sexp) : option expr := d_expr_fuel (S (sdepth s)) s.

Definition d_minfo (s : sexp) : option ((string * string) * minfo) :=
  match s with
  | SList [SAtom t; SAtom m; ic; SAtom ty; pd; SAtom ety; epd] =>
      match d_bool ic, d_nat pd, d_nat epd with
      | Some ic', Some pd', Some epd' =>
          Some ((t, m), {| mi_coll := ic'; mi_ty := ty; mi_pd := pd'; mi_ety := ety; mi_epd := epd' |})
      | _, _, _ => None
      end
  | _ => None
  end.
Definition d_registry (s : sexp) : option registry :=
  match s with
  | SList [SList ms; SList nss; SList ens] =>
      let den := fun x => match x with
                          | SList [p; vs] => match d_strs p, d_strs vs with Some p', Some v' => Some (p', v') | _, _ => None end
                          | _ => None end in
      match d_list d_minfo ms, d_list d_strs nss, d_list den ens with
      | Some ms', Some ns', Some en' => Some {| r_methods := ms'; r_ns := ns'; r_enums := en' |}
      | _, _, _ => None
      end
  | _ => None
  end.

Fixpoint s_kind (k : kind) : sexp :=
  match k with
  | KVal (Some t) pd => s_tag "val" [SAtom t; s_nat pd]
  | KVal None _ => s_tag "val-untyped" []
  | KEnumVal => s_tag "enumval" []
  | KColl c cpd e epd => s_tag "coll" [SAtom c; s_nat cpd; SAtom e; s_nat epd]
  | KSeq v => s_tag "seq" [s_kind v]
  | KTuple ks => s_tag "tuple" (map s_kind ks)
  | KDict ks _ => s_tag "dict" (map s_kind ks)
  | KTree => s_tag "tree" []
  | KNs p => s_tag "ns" [s_strs p]
  | KEnum p => s_tag "enum" [s_strs p]
  end.

(* c09.translate: (registry, ast) -> ok kind | error class.  Fuel: generous multiple of the AST depth;
   exhaustion is reported as its own class and counted by the harness (never silently accepted). *)
(* ---------- executor._check_sequence_call_arguments (fix 109dd7d): run on the tree in which seq.Select(f) has become Select(seq, f),
   before func_adl's simplifier rebuilds these calls from their first two arguments ---------- *)
Definition is_seq_op (f : expr) : bool :=
  match f with EName x => String.eqb x "Select" || String.eqb x "SelectMany" || String.eqb x "Where" | _ => false end.
Fixpoint seq_arity_ok (e : expr) : bool :=
  let all := fix all (l : list expr) : bool := match l with [] => true | x :: r => seq_arity_ok x && all r end in
  match e with
  | EConst _ | EName _ | ELiteral _ _ | ECppCode _ _ _ _ _ _ _ | EFunAst _ _ | EKind _ => true
  | EAttr a _ => seq_arity_ok a
  | ECall f args nkw =>
      (if is_seq_op f then Nat.eqb (List.length args) 2 && Nat.eqb nkw 0 else true) && seq_arity_ok f && all args
  | ELambda _ b => seq_arity_ok b
  | EBinOp _ a b => seq_arity_ok a && seq_arity_ok b
  | EUnOp _ a => seq_arity_ok a
  | ECompare _ l cs => seq_arity_ok l && all cs
  | EBoolOp _ vs => all vs
  | EIfExp c a b => seq_arity_ok c && seq_arity_ok a && seq_arity_ok b
  | ESubscript v i => seq_arity_ok v && seq_arity_ok i
  | ETuple es | EList es => all es
  | EDict _ _ vs => all vs
  | EOther _ ch => all ch
  end.
Fixpoint all_arity_ok (l : list expr) : bool := match l with [] => true | x :: r => seq_arity_ok x && all_arity_ok r end.
Definition prepass (e : expr) : result unit := if seq_arity_ok e then OK tt else Error ErrValue.
(* c09.prepass: expression -> ok | error ValueError *)
Definition run_prepass (s : sexp) : sexp :=
  match d_expr s with
  | Some e => s_result (fun _ => SAtom "") (prepass e)
  | None => bad_input
  end.

Definition run_translate (s : sexp) : sexp :=
  match s with
  | SList [g; a] =>
      match d_registry g, d_expr a with
      | Some G, Some e => s_result s_kind (translate G (200 + 50 * sdepth a) e)
      | _, _ => bad_input
      end
  | _ => bad_input
  end.
