(* Model of the arithmetic part of the translator:
     func_adl_xAOD/common/ast_to_cpp_translator.py  visit_BinOp, visit_special_BinOp, visit_UnaryOp,
                                                    visit_Compare, visit_IfExp, visit_Constant,
                                                    check_accumulator_type, visit_call_Aggregate_initial (typing)
     func_adl_xAOD/common/utils.py                  most_accurate_type
     func_adl_xAOD/common/statement.py              set_var.emit / push_back.emit (casts on type mismatch)
   together with (i) an evaluation model of the emitted C++ expression fragment in which the usual
   arithmetic conversions are explicit and (ii) Python's meaning of the same operators on the declared
   value types.  The operator tables are regenerated from the source (gen/OpTables.v).
   No proofs here. *)
From FV Require Import Base.Prelude gen.OpTables.

(* ------------------------------------------------------------------------------------------ *)
(* 1. types, expressions, representations                                                      *)
(* ------------------------------------------------------------------------------------------ *)

(* ctyp.terminal(...).type, the only attribute the arithmetic code looks at *)
Inductive ctype := TBool | TInt | TFloat | TDouble | TOther (name : string).

Definition ctype_name (t : ctype) : string :=
  match t with TBool => "bool" | TInt => "int" | TFloat => "float" | TDouble => "double" | TOther n => n end.
Definition ctype_of_name (s : string) : ctype :=
  if String.eqb s "bool" then TBool else if String.eqb s "int" then TInt
  else if String.eqb s "float" then TFloat else if String.eqb s "double" then TDouble else TOther s.
Definition ctype_eqb (a b : ctype) : bool := String.eqb (ctype_name a) (ctype_name b).

(* The emitted C++ expression, as a tree; [show] is the text the translator writes. *)
Inductive cexpr :=
| ELeaf (text : string)                 (* an operand the arithmetic code did not build: method call, variable, float literal *)
| EInt (z : Z)                          (* str(int) *)
| EBool (b : bool)                      (* "true" / "false" *)
| EBin (tok : string) (l r : cexpr)     (* f"({l}{tok}{r})" *)
| EUn (tok : string) (e : cexpr)        (* f"({tok}({e}))" *)
| EPow (l r : cexpr)                    (* f"std::pow({l}, {r})" *)
| ECast (ty : string) (e : cexpr).      (* f"static_cast<{ty}>({e})" *)

Fixpoint show (e : cexpr) : string :=
  match e with
  | ELeaf t => t
  | EInt z => dec_Z z
  | EBool b => if b then "true" else "false"
  | EBin tok l r => "(" +++ show l +++ tok +++ show r +++ ")"
  | EUn tok a => "(" +++ tok +++ "(" +++ show a +++ "))"
  | EPow l r => "std::pow(" +++ show l +++ ", " +++ show r +++ ")"
  | ECast ty a => "static_cast<" +++ ty +++ ">(" +++ show a +++ ")"
  end.

(* crep.cpp_value: text + declared type *)
Record rep := mk_rep { r_expr : cexpr; r_ty : ctype }.

(* Python operator classes (ast.<Name>) *)
Inductive pybinop := Add | Sub | Mult | Div | Mod | Pow | FloorDiv | OtherBin (name : string).
Definition pybinop_name (o : pybinop) : string :=
  match o with Add => "Add" | Sub => "Sub" | Mult => "Mult" | Div => "Div" | Mod => "Mod" | Pow => "Pow"
             | FloorDiv => "FloorDiv" | OtherBin n => n end.
Definition is_Div (o : pybinop) : bool := match o with Div => true | _ => false end.
Definition is_Pow (o : pybinop) : bool := match o with Pow => true | _ => false end.

Inductive pyunop := UAdd | USub | Not | OtherUn (name : string).
Definition pyunop_name (o : pyunop) : string :=
  match o with UAdd => "UAdd" | USub => "USub" | Not => "Not" | OtherUn n => n end.

Inductive pycmp := Lt | LtE | Gt | GtE | Eq | NotEq | OtherCmp (name : string).
Definition pycmp_name (o : pycmp) : string :=
  match o with Lt => "Lt" | LtE => "LtE" | Gt => "Gt" | GtE => "GtE" | Eq => "Eq" | NotEq => "NotEq" | OtherCmp n => n end.

Fixpoint assoc_s {A} (k : string) (l : list (string * A)) : option A :=
  match l with [] => None | (a, b) :: r => if String.eqb k a then Some b else assoc_s k r end.

(* ------------------------------------------------------------------------------------------ *)
(* 2. the translator                                                                           *)
(* ------------------------------------------------------------------------------------------ *)

(* mirrors utils.py: most_accurate_type
   assert len > 0; assert all known; sorted(key=priority, reverse=True)[0]  (stable: the first element
   of maximal priority) *)
Definition priority_of (t : ctype) : option Z := assoc_s (ctype_name t) type_priority.

Fixpoint best_of (cur : ctype) (pc : Z) (l : list ctype) : ctype :=
  match l with
  | [] => cur
  | t :: r => match priority_of t with
              | Some p => if (pc <? p)%Z then best_of t p r else best_of cur pc r
              | None => best_of cur pc r
              end
  end.

Definition most_accurate_type (l : list ctype) : result ctype :=
  match l with
  | [] => Error ErrAssert
  | t :: r =>
      if forallb (fun t => match priority_of t with Some _ => true | None => false end) l
      then match priority_of t with Some p => OK (best_of t p r) | None => Error ErrAssert end
      else Error ErrAssert
  end.

(* mirrors ast_to_cpp_translator.py: visit_special_BinOp *)
Definition visit_special_BinOp (op : pybinop) (l r : rep) : result rep :=
  if is_Pow op then OK (mk_rep (EPow (r_expr l) (r_expr r)) TDouble)
  else Error ErrRuntime.

(* mirrors ast_to_cpp_translator.py: visit_BinOp (operands already visited, left first) *)
Definition visit_BinOp (op : pybinop) (l r : rep) : result rep :=
  match assoc_s (pybinop_name op) known_binary_operators with
  | None => visit_special_BinOp op l r
  | Some tok =>
      do best <- most_accurate_type [r_ty l; r_ty r];
      let left_cpp := if is_Div op && negb (ctype_eqb best TDouble) then ECast "double" (r_expr l) else r_expr l in
      let best' := if is_Div op then TDouble else best in
      OK (mk_rep (EBin tok left_cpp (r_expr r)) best')
  end.

(* mirrors ast_to_cpp_translator.py: visit_UnaryOp *)
Definition visit_UnaryOp (op : pyunop) (a : rep) : result rep :=
  match assoc_s (pyunop_name op) known_unary_operators with
  | None => Error ErrRuntime
  | Some tok => OK (mk_rep (EUn tok (r_expr a)) (r_ty a))
  end.

(* mirrors ast_to_cpp_translator.py: visit_Compare (one operator; chains are refused before) *)
Definition visit_Compare (op : pycmp) (l r : rep) : result rep :=
  match assoc_s (pycmp_name op) compare_operations with
  | None => Error ErrKey
  | Some tok => OK (mk_rep (EBin tok (r_expr l) (r_expr r)) TBool)
  end.

(* mirrors ast_to_cpp_translator.py: visit_Constant (int / bool; str and float constants are leaves here,
   their text is C18's subject) *)
Definition visit_Constant_int (z : Z) : rep := mk_rep (EInt z) TInt.        (* declared int whatever the magnitude *)
Definition int_constant_refused (z : Z) : bool := (9223372036854775808 <=? Z.abs z)%Z.   (* abs(value) >= 2**63: ValueError *)
Definition visit_Constant_bool (b : bool) : rep := mk_rep (EBool b) TBool.
Definition visit_Constant_float (text : string) : rep := mk_rep (ELeaf text) TDouble.

(* mirrors statement.py: set_var.emit / push_back.emit: the right-hand side written for a target of
   declared type [target] *)
Definition set_var_rhs (target : ctype) (v : rep) : cexpr :=
  if ctype_eqb target (r_ty v) then r_expr v else ECast (ctype_name target) (r_expr v).

(* mirrors ast_to_cpp_translator.py: visit_IfExp: result variable declared double; one assignment per arm *)
Record ifexp := mk_ifexp { i_ty : ctype; i_test : cexpr; i_then : cexpr; i_else : cexpr }.
Definition visit_IfExp (test body orelse : rep) : ifexp :=
  mk_ifexp TDouble (r_expr test) (set_var_rhs TDouble body) (set_var_rhs TDouble orelse).

(* mirrors ast_to_cpp_translator.py: check_accumulator_type *)
Definition check_accumulator_type (t : ctype) : bool := mem_str (ctype_name t) accumulator_types.

(* mirrors ast_to_cpp_translator.py: visit_call_Aggregate_initial + _create_accumulator (typing only).
   The update lambda is visited with the accumulator typed as the seed; afterwards the accumulator is
   widened to most_accurate_type [seed; update] when the two differ; the declaration's initialiser is
   the seed's text; the update is assigned with set_var. *)
Record agg := mk_agg { a_ty : ctype; a_init : cexpr; a_update : cexpr }.
Definition aggregate_type (seed upd : ctype) : result ctype :=
  if ctype_eqb upd seed then OK seed else most_accurate_type [seed; upd].
Definition call_Aggregate (acc_name : string) (seed : rep) (update : rep -> result rep) : result agg :=
  if negb (check_accumulator_type (r_ty seed)) then Error ErrValue
  else
    do u <- update (mk_rep (ELeaf acc_name) (r_ty seed));
    do t <- aggregate_type (r_ty seed) (r_ty u);
    OK (mk_agg t (r_expr seed) (set_var_rhs t u)).

(* ------------------------------------------------------------------------------------------ *)
(* 3. query expressions (the arithmetic fragment) and their translation                        *)
(* ------------------------------------------------------------------------------------------ *)

Inductive aexpr :=
| ALeaf (text : string) (ty : ctype)    (* operand of a declared type: Count() variable, typed method call, float literal *)
| AInt (z : Z)
| ABool (b : bool)
| ABin (op : pybinop) (l r : aexpr)
| AUn (op : pyunop) (a : aexpr)
| ACmp (op : pycmp) (l r : aexpr).

Fixpoint translate (a : aexpr) : result rep :=
  match a with
  | ALeaf t ty => OK (mk_rep (ELeaf t) ty)
  | AInt z => if int_constant_refused z then Error ErrValue else OK (visit_Constant_int z)
  | ABool b => OK (visit_Constant_bool b)
  | ABin op l r => match assoc_s (pybinop_name op) known_binary_operators with
                   | None => if is_Pow op then do l' <- translate l; do r' <- translate r; visit_special_BinOp op l' r'
                             else Error ErrRuntime     (* refused before the operands are visited *)
                   | Some _ => do l' <- translate l; do r' <- translate r; visit_BinOp op l' r'
                   end
  | AUn op x => match assoc_s (pyunop_name op) known_unary_operators with
                | None => Error ErrRuntime            (* checked before the operand is visited *)
                | Some _ => do x' <- translate x; visit_UnaryOp op x'
                end
  | ACmp op l r => do l' <- translate l; do r' <- translate r; visit_Compare op l' r'
  end.

(* ------------------------------------------------------------------------------------------ *)
(* 4. semantics, over an abstract floating type (no laws assumed)                              *)
(* ------------------------------------------------------------------------------------------ *)

(* C++ int is 32 bits; signed overflow is undefined and modelled as "no value" *)
Definition int_ok (z : Z) : bool := ((-2147483648 <=? z) && (z <=? 2147483647))%Z.
(* an integer literal that does not fit int has type long (64 bits, LP64) [lex.icon] *)
Definition long_ok (z : Z) : bool := ((-9223372036854775808 <=? z) && (z <=? 9223372036854775807))%Z.
(* long -> int conversion keeps the low 32 bits *)
Definition wrap32 (z : Z) : Z := ((z + 2147483648) mod 4294967296 - 2147483648)%Z.

(* comparison kinds and arithmetic kinds the C++ tokens denote *)
Inductive carith := CAdd | CSub | CMul | CDiv | CRem.
Inductive ccmp := CLt | CLe | CGt | CGe | CEq | CNe.
Definition carith_of_tok (s : string) : option carith :=
  if String.eqb s "+" then Some CAdd else if String.eqb s "-" then Some CSub
  else if String.eqb s "*" then Some CMul else if String.eqb s "/" then Some CDiv
  else if String.eqb s "%" then Some CRem else None.
Definition ccmp_of_tok (s : string) : option ccmp :=
  if String.eqb s "<" then Some CLt else if String.eqb s "<=" then Some CLe
  else if String.eqb s ">" then Some CGt else if String.eqb s ">=" then Some CGe
  else if String.eqb s "==" then Some CEq else if String.eqb s "!=" then Some CNe else None.
Inductive cun := CPlus | CMinus | CNot.
Definition cun_of_tok (s : string) : option cun :=
  if String.eqb s "+" then Some CPlus else if String.eqb s "-" then Some CMinus
  else if String.eqb s "!" then Some CNot else None.

Section Semantics.
  (* F stands for IEEE binary64; a binary32 value is an F that narrow32 leaves alone.  Nothing is
     assumed about these operations. *)
  Variable F : Type.
  Variables fadd fsub fmul fdiv : F -> F -> F.   (* binary64 operations *)
  Variable fpow : F -> F -> F.                   (* std::pow(double, double) = Python float ** *)
  Variable fpow32 : F -> F -> F.                 (* std::pow(float, float) *)
  Variable fpymod : F -> F -> F.                 (* Python's float % *)
  Variable fneg : F -> F.
  Variables feqb fltb fleb : F -> F -> bool.
  Variable fzero : F -> bool.                    (* is +-0 *)
  Variable of_Z : Z -> F.                        (* int -> double *)
  Variable narrow32 : F -> F.                    (* round to nearest binary32 *)

  (* a value of one of the declared value types *)
  (* VLong: the C++ value of a wide integer literal; nothing is ever *declared* long *)
  Inductive val := VBool (b : bool) | VInt (z : Z) | VFlt (x : F) | VDbl (x : F) | VLong (z : Z).
  Definition type_of (v : val) : ctype :=
    match v with VBool _ => TBool | VInt _ => TInt | VFlt _ => TFloat | VDbl _ => TDouble | VLong _ => TOther "long" end.
  Definition in_range (v : val) : bool := match v with VInt z => int_ok z | VLong z => long_ok z | _ => true end.
  Definition truthy (v : val) : bool :=
    match v with VBool b => b | VInt z => negb (z =? 0)%Z | VFlt x => negb (fzero x) | VDbl x => negb (fzero x)
               | VLong z => negb (z =? 0)%Z end.

  (* ---- C++ ---- *)
  (* operand after the integral promotions *)
  Inductive anum := AI (z : Z) | AF (x : F) | AD (x : F) | AL (z : Z).
  Definition promote (v : val) : anum :=
    match v with VBool b => AI (Z.b2z b) | VInt z => AI z | VFlt x => AF x | VDbl x => AD x | VLong z => AL z end.
  Definition to_dbl (a : anum) : F := match a with AI z => of_Z z | AF x => x | AD x => x | AL z => of_Z z end.
  Definition to_flt (a : anum) : F :=
    match a with AI z => narrow32 (of_Z z) | AF x => x | AD x => narrow32 x | AL z => narrow32 (of_Z z) end.
  Definition a_int (a : anum) : Z := match a with AI z => z | AL z => z | _ => 0%Z end.
  Definition is_AD (a : anum) : bool := match a with AD _ => true | _ => false end.
  Definition is_AF (a : anum) : bool := match a with AF _ => true | _ => false end.
  Definition mk_int (z : Z) : option val := if int_ok z then Some (VInt z) else None.
  Definition mk_long (z : Z) : option val := if long_ok z then Some (VLong z) else None.

  Definition f_arith (o : carith) : option (F -> F -> F) :=
    match o with CAdd => Some fadd | CSub => Some fsub | CMul => Some fmul | CDiv => Some fdiv
               | CRem => None (* % needs integral operands: ill-formed *) end.

  (* usual arithmetic conversions [expr.arith.conv]: double if either is, else float if either is, else
     long if either is, else int *)
  Definition cxx_arith (o : carith) (a b : anum) : option val :=
    if is_AD a || is_AD b then option_map (fun f => VDbl (f (to_dbl a) (to_dbl b))) (f_arith o)
    else if is_AF a || is_AF b then option_map (fun f => VFlt (narrow32 (f (to_flt a) (to_flt b)))) (f_arith o)
    else match a, b with
    | AI x, AI y =>
        match o with
        | CAdd => mk_int (x + y) | CSub => mk_int (x - y) | CMul => mk_int (x * y)
        | CDiv => if (y =? 0)%Z then None else mk_int (Z.quot x y)
        | CRem => if (y =? 0)%Z then None else if int_ok (Z.quot x y) then Some (VInt (Z.rem x y)) else None
        end
    | _, _ =>
        let x := a_int a in let y := a_int b in
        match o with
        | CAdd => mk_long (x + y) | CSub => mk_long (x - y) | CMul => mk_long (x * y)
        | CDiv => if (y =? 0)%Z then None else mk_long (Z.quot x y)
        | CRem => if (y =? 0)%Z then None else if long_ok (Z.quot x y) then Some (VLong (Z.rem x y)) else None
        end
    end.

  Definition z_cmp (o : ccmp) (x y : Z) : bool :=
    match o with CLt => (x <? y)%Z | CLe => (x <=? y)%Z | CGt => (y <? x)%Z | CGe => (y <=? x)%Z
               | CEq => (x =? y)%Z | CNe => negb (x =? y)%Z end.
  Definition f_cmp (o : ccmp) (x y : F) : bool :=
    match o with CLt => fltb x y | CLe => fleb x y | CGt => fltb y x | CGe => fleb y x
               | CEq => feqb x y | CNe => negb (feqb x y) end.
  Definition cxx_cmp (o : ccmp) (a b : anum) : val :=
    if is_AD a || is_AD b then VBool (f_cmp o (to_dbl a) (to_dbl b))
    else if is_AF a || is_AF b then VBool (f_cmp o (to_flt a) (to_flt b))
    else VBool (z_cmp o (a_int a) (a_int b)).

  Definition cxx_unary (o : cun) (v : val) : option val :=
    match o with
    | CNot => Some (VBool (negb (truthy v)))
    | CPlus => match promote v with AI z => Some (VInt z) | AF x => Some (VFlt x) | AD x => Some (VDbl x) | AL z => Some (VLong z) end
    | CMinus => match promote v with AI z => mk_int (- z) | AF x => Some (VFlt (fneg x)) | AD x => Some (VDbl (fneg x))
                                   | AL z => mk_long (- z) end
    end.

  (* <cmath> std::pow [c.math]: float overload only when both arguments are float; any integral or
     double argument makes it the double overload *)
  Definition cxx_pow (a b : anum) : val :=
    match a, b with
    | AF x, AF y => VFlt (fpow32 x y)
    | _, _ => VDbl (fpow (to_dbl a) (to_dbl b))
    end.

  (* conversion to a declared type: static_cast<T>(v) and assignment to a T variable.
     floating -> int is not needed by any emitted code and left undefined. *)
  Definition convert (t : ctype) (v : val) : option val :=
    match t with
    | TDouble => Some (VDbl (to_dbl (promote v)))
    | TFloat => Some (VFlt (to_flt (promote v)))
    | TInt => match promote v with AI z => Some (VInt z) | AL z => Some (VInt (wrap32 z)) | _ => None end
    | TBool => Some (VBool (truthy v))
    | TOther n => if String.eqb n "long"
                  then match promote v with AI z => Some (VLong z) | AL z => Some (VLong z) | _ => None end
                  else None
    end.

  Definition env := string -> option val.

  Fixpoint cxx_eval (E : env) (e : cexpr) : option val :=
    match e with
    | ELeaf t => E t
    | EInt z => if int_ok z then Some (VInt z) else mk_long z      (* a wide literal is a long *)
    | EBool b => Some (VBool b)
    | EBin tok l r =>
        match cxx_eval E l, cxx_eval E r with
        | Some a, Some b =>
            match carith_of_tok tok with
            | Some o => cxx_arith o (promote a) (promote b)
            | None => match ccmp_of_tok tok with
                      | Some o => Some (cxx_cmp o (promote a) (promote b))
                      | None => None
                      end
            end
        | _, _ => None
        end
    | EUn tok a =>
        match cxx_eval E a, cun_of_tok tok with
        | Some v, Some o => cxx_unary o v
        | _, _ => None
        end
    | EPow l r =>
        match cxx_eval E l, cxx_eval E r with
        | Some a, Some b => Some (cxx_pow (promote a) (promote b))
        | _, _ => None
        end
    | ECast ty a =>
        match cxx_eval E a with Some v => convert (ctype_of_name ty) v | None => None end
    end.

  (* what a variable of declared type t holds after `var = <rhs>;` *)
  Definition cxx_assign (E : env) (t : ctype) (rhs : cexpr) : option val :=
    match cxx_eval E rhs with Some v => convert t v | None => None end.

  (* if (test) res = then; else res = else;  with res of type i_ty *)
  Definition cxx_ifexp (E : env) (i : ifexp) : option val :=
    match cxx_eval E (i_test i) with
    | Some c => if truthy c then cxx_assign E (i_ty i) (i_then i) else cxx_assign E (i_ty i) (i_else i)
    | None => None
    end.

  (* T acc (init); for (elem : seq) acc = update;   the accumulator and the element are leaves *)
  Definition upd_env (E : env) (k : string) (v : val) : env := fun s => if String.eqb s k then Some v else E s.
  Fixpoint cxx_loop (E : env) (acc elem : string) (t : ctype) (upd : cexpr) (cur : val) (xs : list val) : option val :=
    match xs with
    | [] => Some cur
    | x :: r => match cxx_assign (upd_env (upd_env E elem x) acc cur) t upd with
                | Some cur' => cxx_loop E acc elem t upd cur' r
                | None => None
                end
    end.
  Definition cxx_aggregate (E : env) (acc elem : string) (a : agg) (xs : list val) : option val :=
    match cxx_assign E (a_ty a) (a_init a) with
    | Some c0 => cxx_loop E acc elem (a_ty a) (a_update a) c0 xs
    | None => None
    end.

  (* ---- Python, on the declared value types ---- *)
  (* bool is an int (True == 1); an int is exact; a float operand has the declared width float or
     double.  Mixed operands promote to the wider of the two declared types and the operation is done
     there; '/' is always the division of doubles; '**' is never an integer operation and yields a double. *)
  Inductive width := W0 | W32 | W64.
  Definition width_of (v : val) : width :=
    match v with VBool _ | VInt _ | VLong _ => W0 | VFlt _ => W32 | VDbl _ => W64 end.
  Definition wmax (a b : width) : width :=
    match a, b with W64, _ | _, W64 => W64 | W32, _ | _, W32 => W32 | _, _ => W0 end.
  Definition py_int (v : val) : Z := match v with VBool b => Z.b2z b | VInt z => z | VLong z => z | _ => 0%Z end.
  Definition at32 (v : val) : F :=
    match v with VBool b => narrow32 (of_Z (Z.b2z b)) | VInt z => narrow32 (of_Z z) | VFlt x => x | VDbl x => narrow32 x
               | VLong z => narrow32 (of_Z z) end.
  Definition at64 (v : val) : F :=
    match v with VBool b => of_Z (Z.b2z b) | VInt z => of_Z z | VFlt x => x | VDbl x => x | VLong z => of_Z z end.
  Definition py_is_zero (v : val) : bool := negb (truthy v).

  Definition py_lift (zop : Z -> Z -> Z) (fop : F -> F -> F) (a b : val) : val :=
    match wmax (width_of a) (width_of b) with
    | W0 => VInt (zop (py_int a) (py_int b))
    | W32 => VFlt (narrow32 (fop (at32 a) (at32 b)))
    | W64 => VDbl (fop (at64 a) (at64 b))
    end.

  (* None: Python raises (ZeroDivisionError) or the operator is outside the property *)
  Definition py_binop (op : pybinop) (a b : val) : option val :=
    match op with
    | Add => Some (py_lift Z.add fadd a b)
    | Sub => Some (py_lift Z.sub fsub a b)
    | Mult => Some (py_lift Z.mul fmul a b)
    | Div => if py_is_zero b then None
             else Some (VDbl (fdiv (at64 a) (at64 b)))
    | Mod => if py_is_zero b then None else Some (py_lift Z.modulo fpymod a b)     (* floor-mod *)
    | Pow => match width_of a, width_of b with
             | W32, W32 => Some (VDbl (fpow32 (at32 a) (at32 b)))
             | _, _ => Some (VDbl (fpow (at64 a) (at64 b)))
             end
    | FloorDiv | OtherBin _ => None
    end.

  Definition py_unary (op : pyunop) (a : val) : option val :=
    match op with
    | UAdd => Some (match a with VBool b => VInt (Z.b2z b) | VLong z => VInt z | _ => a end)
    | USub => Some (match a with VBool b => VInt (- Z.b2z b) | VInt z => VInt (- z)
                               | VFlt x => VFlt (fneg x) | VDbl x => VDbl (fneg x) | VLong z => VInt (- z) end)
    | Not => Some (VBool (negb (truthy a)))
    | OtherUn _ => None
    end.

  Definition py_cmp_kind (op : pycmp) : option ccmp :=
    match op with Lt => Some CLt | LtE => Some CLe | Gt => Some CGt | GtE => Some CGe | Eq => Some CEq
                | NotEq => Some CNe | OtherCmp _ => None end.
  Definition py_compare (op : pycmp) (a b : val) : option val :=
    match py_cmp_kind op with
    | None => None
    | Some o => Some (VBool (match wmax (width_of a) (width_of b) with
                             | W0 => z_cmp o (py_int a) (py_int b)
                             | W32 => f_cmp o (at32 a) (at32 b)
                             | W64 => f_cmp o (at64 a) (at64 b)
                             end))
    end.

  Definition py_ifexp (c a b : val) : val := if truthy c then a else b.

  (* denotation of a query expression; leaves are looked up in the same environment *)
  Fixpoint denote (E : env) (a : aexpr) : option val :=
    match a with
    | ALeaf t _ => E t
    | AInt z => Some (VInt z)
    | ABool b => Some (VBool b)
    | ABin op l r => match denote E l, denote E r with Some x, Some y => py_binop op x y | _, _ => None end
    | AUn op x => match denote E x with Some v => py_unary op v | None => None end
    | ACmp op l r => match denote E l, denote E r with Some x, Some y => py_compare op x y | _, _ => None end
    end.

  (* functools.reduce(update, xs, seed) *)
  Fixpoint py_fold (f : val -> val -> option val) (cur : val) (xs : list val) : option val :=
    match xs with
    | [] => Some cur
    | x :: r => match f cur x with Some c => py_fold f c r | None => None end
    end.

  (* widening of a Python value to a declared type at least as wide (bool <= int <= float <= double):
     what the output column holds.  Undefined when the type is narrower. *)
  Definition ty_rank (t : ctype) : option nat :=      (* by type name, as the translator compares types *)
    match ctype_of_name (ctype_name t) with
    | TBool => Some 0%nat | TInt => Some 1%nat | TFloat => Some 2%nat | TDouble => Some 3%nat | TOther _ => None end.
  Definition ty_le (a b : ctype) : bool :=
    match ty_rank a, ty_rank b with Some x, Some y => (x <=? y)%nat | _, _ => false end.
  Definition widen_to (t : ctype) (v : val) : option val :=
    if ty_le (type_of v) t then
      match t with
      | TBool => Some v
      | TInt => Some (VInt (py_int v))
      | TFloat => Some (VFlt (at32 v))
      | TDouble => Some (VDbl (at64 v))
      | TOther _ => None
      end
    else None.
End Semantics.

Arguments VBool {F} b.
Arguments VInt {F} z.
Arguments VFlt {F} x.
Arguments VDbl {F} x.
Arguments VLong {F} z.
Arguments type_of {F} v.
Arguments in_range {F} v.

(* ------------------------------------------------------------------------------------------ *)
(* 5. wire                                                                                     *)
(* ------------------------------------------------------------------------------------------ *)

(* aexpr on the wire:
     (leaf text type) (int z) (bool b) (bin Op l r) (un Op x) (cmp Op l r)  *)
Definition d_binop (s : string) : pybinop :=
  if String.eqb s "Add" then Add else if String.eqb s "Sub" then Sub else if String.eqb s "Mult" then Mult
  else if String.eqb s "Div" then Div else if String.eqb s "Mod" then Mod else if String.eqb s "Pow" then Pow
  else if String.eqb s "FloorDiv" then FloorDiv else OtherBin s.
Definition d_unop (s : string) : pyunop :=
  if String.eqb s "UAdd" then UAdd else if String.eqb s "USub" then USub else if String.eqb s "Not" then Not else OtherUn s.
Definition d_cmp (s : string) : pycmp :=
  if String.eqb s "Lt" then Lt else if String.eqb s "LtE" then LtE else if String.eqb s "Gt" then Gt
  else if String.eqb s "GtE" then GtE else if String.eqb s "Eq" then Eq else if String.eqb s "NotEq" then NotEq
  else OtherCmp s.

Fixpoint d_aexpr (s : sexp) : option aexpr :=
  match s with
  | SList [SAtom "leaf"; SAtom t; SAtom ty] => Some (ALeaf t (ctype_of_name ty))
  | SList [SAtom "int"; z] => option_map AInt (d_Z z)
  | SList [SAtom "bool"; b] => option_map ABool (d_bool b)
  | SList [SAtom "bin"; SAtom o; l; r] =>
      match d_aexpr l, d_aexpr r with Some l', Some r' => Some (ABin (d_binop o) l' r') | _, _ => None end
  | SList [SAtom "un"; SAtom o; x] =>
      match d_aexpr x with Some x' => Some (AUn (d_unop o) x') | None => None end
  | SList [SAtom "cmp"; SAtom o; l; r] =>
      match d_aexpr l, d_aexpr r with Some l', Some r' => Some (ACmp (d_cmp o) l' r') | _, _ => None end
  | _ => None
  end.

Definition s_rep (r : rep) : sexp := SList [SAtom (show (r_expr r)); SAtom (ctype_name (r_ty r))].

(* arith.translate: expression -> (text type) *)
Definition run_translate (s : sexp) : sexp :=
  match d_aexpr s with Some a => s_result s_rep (translate a) | None => bad_input end.

(* arith.ifexp: (test body orelse) -> (type test then-rhs else-rhs) *)
Definition run_ifexp (s : sexp) : sexp :=
  match s with
  | SList [t; b; o] =>
      match d_aexpr t, d_aexpr b, d_aexpr o with
      | Some t', Some b', Some o' =>
          s_result (fun i : ifexp => SList [SAtom (ctype_name (i_ty i)); SAtom (show (i_test i)); SAtom (show (i_then i)); SAtom (show (i_else i))])
            (do t'' <- translate t'; do b'' <- translate b'; do o'' <- translate o';
             OK (visit_IfExp t'' b'' o''))
      | _, _, _ => bad_input
      end
  | _ => bad_input
  end.

(* arith.aggregate: (acc-name seed update) where update mentions the accumulator as the leaf
   (leaf acc-name "@acc"): its type is filled in with the seed's type, as the translator does *)
Fixpoint subst_acc (name : string) (t : ctype) (a : aexpr) : aexpr :=
  match a with
  | ALeaf x ty => if String.eqb x name then ALeaf x t else a
  | ABin o l r => ABin o (subst_acc name t l) (subst_acc name t r)
  | AUn o x => AUn o (subst_acc name t x)
  | ACmp o l r => ACmp o (subst_acc name t l) (subst_acc name t r)
  | _ => a
  end.
Definition run_aggregate (s : sexp) : sexp :=
  match s with
  | SList [SAtom acc; sd; up] =>
      match d_aexpr sd, d_aexpr up with
      | Some sd', Some up' =>
          s_result (fun a : agg => SList [SAtom (ctype_name (a_ty a)); SAtom (show (a_init a)); SAtom (show (a_update a))])
            (do seed <- translate sd';
             call_Aggregate acc seed (fun accrep => translate (subst_acc acc (r_ty accrep) up')))
      | _, _ => bad_input
      end
  | _ => bad_input
  end.
