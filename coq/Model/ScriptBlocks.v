(* Model of func_adl_xAOD/common/meta_data.py : generate_script_block.
   Executable definitions only; proofs are in Proofs/ScriptBlocksProofs.v. *)
From FV Require Import Base.Prelude.

Record jblock := { jb_name : string; jb_script : list string; jb_deps : list string }.

(* `dependencies` and `block_lookup` of the Python code are two dicts with the same key set and the
   same insertion order; they are modelled as one association list in insertion order:
   name -> (script of the first block with that name, accumulated dependency list). *)
Definition entry := (string * (list string * list string))%type.
Definition table := list entry.

Fixpoint tget (n : string) (t : table) : option (list string * list string) :=
  match t with
  | [] => None
  | (k, v) :: r => if String.eqb n k then Some v else tget n r
  end.

Fixpoint textend (n : string) (ds : list string) (t : table) : table :=
  match t with
  | [] => []
  | (k, (s, d)) :: r => if String.eqb n k then (k, (s, d ++ ds)) :: r else (k, (s, d)) :: textend n ds r
  end.

(* first loop: `for b in blocks` *)
Definition step1 (t : table) (b : jblock) : result table :=
  match tget (jb_name b) t with
  | None => OK (t ++ [(jb_name b, (jb_script b, jb_deps b))])
  | Some (s0, _) =>
      if list_str_eqb (jb_script b) s0 then OK (textend (jb_name b) (jb_deps b) t)
      else Error ErrValue
  end.

Fixpoint phase1 (bs : list jblock) (t : table) : result table :=
  match bs with
  | [] => OK t
  | b :: r => match step1 t b with OK t' => phase1 r t' | Error e => Error e end
  end.

Definition has_key (n : string) (t : table) : bool :=
  match tget n t with Some _ => true | None => false end.

(* second loop: every dependency must name a block that was sent *)
Definition deps_present (t : table) : bool :=
  forallb (fun e : entry => forallb (fun d => has_key d t) (snd (snd e))) t.

(* one execution of `for j in block_lookup.values()` inside the while loop;
   [seen] is kept in emission order *)
Fixpoint one_pass (rest : table) (seen out : list string) (emitted : bool)
  : list string * list string * bool :=
  match rest with
  | [] => (seen, out, emitted)
  | (n, (scr, ds)) :: r =>
      if negb (mem_str n seen) && forallb (fun d => mem_str d seen) ds
      then one_pass r (seen ++ [n]) (out ++ scr) true
      else one_pass r seen out emitted
  end.

(* the while loop, on explicit fuel; the proofs show the fuel given by [gen] is never exhausted *)
Fixpoint emit_loop (fuel : nat) (t : table) (seen out : list string) : result (list string) :=
  if Nat.ltb (List.length seen) (List.length t) then
    match fuel with
    | O => Error ErrOutOfFuel
    | S f =>
        match one_pass t seen out false with
        | (seen', out', true) => emit_loop f t seen' out'
        | (_, _, false) => Error ErrValue
        end
    end
  else OK out.

Definition gen (bs : list jblock) : result (list string) :=
  match phase1 bs [] with
  | Error e => Error e
  | OK t => if deps_present t then emit_loop (S (List.length t)) t [] [] else Error ErrValue
  end.

(* blocks merged by name: what the docstring promises duplicates behave like *)
Definition merged (bs : list jblock) : list jblock :=
  match phase1 bs [] with
  | OK t => map (fun e : entry => {| jb_name := fst e; jb_script := fst (snd e); jb_deps := snd (snd e) |}) t
  | Error _ => bs
  end.

(* ---------- wire format ---------- *)
Definition d_jblock (s : sexp) : option jblock :=
  match s with
  | SList [SAtom n; sc; dp] =>
      match d_strs sc, d_strs dp with
      | Some sc', Some dp' => Some {| jb_name := n; jb_script := sc'; jb_deps := dp' |}
      | _, _ => None
      end
  | _ => None
  end.

Definition run_gen (s : sexp) : sexp :=
  match s with
  | SList l => match d_list d_jblock l with
               | Some bs => s_result s_strs (gen bs)
               | None => bad_input
               end
  | _ => bad_input
  end.
