(* Model of the math-function plug-in: cpp_functions.py (table, add_function_mapping,
   find_known_functions name resolution).  The table itself is regenerated (gen/MathTable.v). *)
From FV Require Import Base.Prelude.

Record mrow := mk_mrow { m_py : string; m_cpp : string; m_inc : list string; m_ret : string }.
Record menv := { e_rows : list mrow; e_module : list string; e_builtins : list (string * string) }.

(* functions_to_replace is a dict: a later add_function_mapping for the same key wins *)
Fixpoint lookup_row (k : string) (rows : list mrow) : option mrow :=
  match rows with
  | [] => None
  | r :: rest => match lookup_row k rest with
                 | Some r' => Some r'
                 | None => if String.eqb k (m_py r) then Some r else None
                 end
  end.

Fixpoint assoc (k : string) (l : list (string * string)) : option string :=
  match l with [] => None | (a, b) :: r => if String.eqb k a then Some b else assoc k r end.

Inductive resolution := RName (qualified : string) | RCrash (* eval() result has no __module__ *).

(* find_known_functions.visit_Call: fnc = eval(id); f"{fnc.__module__}.{id}"; NameError -> id.
   A name bound in the module itself shadows the builtin; what __module__ such an object has is not
   modelled (RCrash stands for "not one of the table's keys"). *)
Definition resolve (E : menv) (n : string) : resolution :=
  if mem_str n (e_module E) then RCrash
  else match assoc n (e_builtins E) with
       | Some "-" => RCrash
       | Some m => RName (m +++ "." +++ n)
       | None => RName n
       end.

Definition find_row (E : menv) (n : string) : option mrow :=
  match resolve E n with RName q => lookup_row q (e_rows E) | RCrash => None end.

(* The cmath function a documented name stands for.  ln is the documented alias of log; the builtin
   abs resolves to std::abs, whose double overload is fabs. *)
Definition acceptable (n cpp : string) : bool :=
  String.eqb cpp ("std::" +++ n)
  || (String.eqb n "ln" && String.eqb cpp "std::log")
  || (String.eqb n "abs" && (String.eqb cpp "std::fabs" || String.eqb cpp "std::abs")).

(* <cmath> signatures (ISO C++11 [c.math]): arity, and whether a parameter is an out-pointer that no
   query expression can supply.  Hand-written from the standard; part of the trusted base. *)
Definition cmath_sig : list (string * (nat * bool)) :=
  [ ("sin",(1,false)); ("cos",(1,false)); ("tan",(1,false)); ("acos",(1,false)); ("asin",(1,false));
    ("atan",(1,false)); ("atan2",(2,false)); ("sinh",(1,false)); ("cosh",(1,false)); ("tanh",(1,false));
    ("asinh",(1,false)); ("acosh",(1,false)); ("atanh",(1,false)); ("exp",(1,false)); ("ldexp",(2,false));
    ("log",(1,false)); ("ln",(1,false)); ("log10",(1,false)); ("exp2",(1,false)); ("expm1",(1,false));
    ("ilogb",(1,false)); ("log1p",(1,false)); ("log2",(1,false)); ("scalbn",(2,false)); ("scalbln",(2,false));
    ("pow",(2,false)); ("sqrt",(1,false)); ("cbrt",(1,false)); ("hypot",(2,false)); ("erf",(1,false));
    ("erfc",(1,false)); ("tgamma",(1,false)); ("lgamma",(1,false)); ("ceil",(1,false)); ("floor",(1,false));
    ("fmod",(2,false)); ("trunc",(1,false)); ("round",(1,false)); ("rint",(1,false)); ("nearbyint",(1,false));
    ("remainder",(2,false)); ("remquo",(3,true)); ("copysign",(2,false)); ("nan",(1,false));
    ("nextafter",(2,false)); ("nexttoward",(2,false)); ("fdim",(2,false)); ("fmax",(2,false));
    ("fmin",(2,false)); ("fabs",(1,false)); ("abs",(1,false)); ("fma",(3,false)) ].

Fixpoint sig_of (n : string) (l : list (string * (nat * bool))) : option (nat * bool) :=
  match l with [] => None | (a, b) :: r => if String.eqb n a then Some b else sig_of n r end.

Definition callable_from_query (n : string) : bool :=
  match sig_of n cmath_sig with Some (_, false) => true | _ => false end.

(* what the property demands of one documented name *)
Definition doc_ok (E : menv) (n : string) : bool :=
  match find_row E n with
  | Some r => acceptable n (m_cpp r) && mem_str "cmath" (m_inc r) && String.eqb (m_ret r) "double"
              && callable_from_query n
  | None => false
  end.

(* model of visit_function_ast's text: cpp_name(arg1,arg2,...) *)
Definition emit_call (r : mrow) (args : list string) : string :=
  m_cpp r +++ "(" +++ join_str "," args +++ ")".

(* ---- wire ---- *)
Definition s_row (r : mrow) : sexp := SList [SAtom (m_py r); SAtom (m_cpp r); s_strs (m_inc r); SAtom (m_ret r)].
Definition audit (E : menv) (doc : list string) : sexp :=
  SList (map (fun n =>
    SList [SAtom n;
           match resolve E n with RName q => SAtom q | RCrash => SAtom "<crash>" end;
           match find_row E n with Some r => s_row r | None => SList [] end;
           s_bool (doc_ok E n);
           match sig_of n cmath_sig with Some (k, p) => SList [s_nat k; s_bool p] | None => SList [] end]) doc).
