(* Model of the declared-type machinery of func_adl_xAOD:
     common/cpp_types.py            parse_type, terminal, collection, method registry, enum / namespace registry
     common/cpp_representation.py   base_type_member_access, dereference_var
     common/meta_data.py            add_method_type_info / define_enum entries of process_metadata
     common/ast_to_cpp_translator.py determine_type_mf, visit_Call_Member, visit_Attribute, visit_Subscript,
                                    make_sequence_from_collection, the column declared by call_ResultTTree
                                    (get_ttree_type, statement.set_var / push_back)
   Executable definitions only; proofs are in Proofs/CppTypesProofs.v.
   Strings are byte strings; type names are assumed ASCII (Python's str.strip also removes non-ASCII
   Unicode white space, which has no single-byte counterpart here). *)
From FV Require Import Base.Prelude.

(* ------------------------------------------------------------------------------------------ *)
(* characters                                                                                 *)
(* ------------------------------------------------------------------------------------------ *)
Definition chars := list ascii.
Definition to_chars : string -> chars := list_ascii_of_string.
Definition of_chars : chars -> string := string_of_list_ascii.

(* str.isspace() on ASCII: \t \n \v \f \r, \x1c-\x1f, space *)
Definition is_ws (c : ascii) : bool :=
  let n := nat_of_ascii c in
  ((9 <=? n)%nat && (n <=? 13)%nat) || ((28 <=? n)%nat && (n <=? 32)%nat).
Definition is_star (c : ascii) : bool := Ascii.eqb c "*"%char.

Fixpoint lstrip (l : chars) : chars :=
  match l with
  | [] => []
  | c :: r => if is_ws c then lstrip r else l
  end.

(* mirrors cpp_types.py: parse_type, the `while True: strip; endswith("*")` loop, run on the reversed
   string: skip white space, count a star, repeat; stop at the first other character.
   Returns what is left (still reversed) and the number of stars removed. *)
Fixpoint strip_stars_rev (l : chars) : chars * nat :=
  match l with
  | [] => ([], O)
  | c :: r =>
      if is_ws c then strip_stars_rev r
      else if is_star c then let '(l', n) := strip_stars_rev r in (l', S n)
      else (l, O)
  end.

Fixpoint prefix_chars (p l : chars) : bool :=
  match p, l with
  | [], _ => true
  | a :: p', b :: l' => Ascii.eqb a b && prefix_chars p' l'
  | _ :: _, [] => false
  end.

Definition const_kw : chars := to_chars "const ".

(* mirrors cpp_types.py: CPPParsedTypeInfo *)
Record parsed := { p_name : string; p_depth : nat; p_const : bool }.

(* mirrors cpp_types.py: parse_type *)
Definition parse_chars (s : chars) : chars * nat * bool :=
  let '(l', n) := strip_stars_rev (rev s) in
  let core := lstrip (rev l') in
  if prefix_chars const_kw core then (skipn 6 core, n, true) else (core, n, false).

Definition parse_type (s : string) : parsed :=
  let '(nm, n, c) := parse_chars (to_chars s) in
  {| p_name := of_chars nm; p_depth := n; p_const := c |}.

Fixpoint stars (n : nat) : string :=
  match n with O => "" | S k => "*" +++ stars k end.

(* mirrors CPPParsedTypeInfo.__str__ (the const flag is not printed) *)
Definition str_parsed (p : parsed) : string := p_name p +++ stars (p_depth p).

(* ------------------------------------------------------------------------------------------ *)
(* types                                                                                      *)
(* ------------------------------------------------------------------------------------------ *)
(* mirrors cpp_types.py: terminal (fields _type, _p_depth, _is_const, _tree_type) *)
Record terminal := { t_type : string; t_depth : nat; t_const : bool; t_tree : option string }.

Definition mk_term (n : string) (d : nat) : terminal :=
  {| t_type := n; t_depth := d; t_const := false; t_tree := None |}.

(* terminal(CPPParsedTypeInfo) *)
Definition term_of_parsed (p : parsed) : terminal :=
  {| t_type := p_name p; t_depth := p_depth p; t_const := p_const p; t_tree := None |}.

(* mirrors terminal.__str__ *)
Definition str_terminal (t : terminal) : string :=
  (if t_const t then "const " else "") +++ t_type t +++ stars (t_depth t).

(* mirrors terminal.tree_type *)
Definition tree_type (t : terminal) : terminal :=
  match t_tree t with
  | None => t
  | Some ty => {| t_type := ty; t_depth := t_depth t; t_const := t_const t; t_tree := None |}
  end.

(* a type handed around by the translator: a terminal, or a collection (a terminal - the array type -
   that also knows its element type; elements declared through metadata are terminals) *)
Inductive cpptype :=
| TTerm (t : terminal)
| TColl (arr : terminal) (elem : terminal).

(* the fields every type has through the base class `terminal` *)
Definition view (t : cpptype) : terminal :=
  match t with TTerm x => x | TColl a _ => a end.

Definition is_coll (t : cpptype) : bool :=
  match t with TColl _ _ => true | TTerm _ => false end.

(* mirrors collection.__init__(element_type) with array_type=None *)
Definition vector_of (e : terminal) : cpptype :=
  TColl (mk_term ("std::vector<" +++ str_terminal e +++ ">") O) e.

(* ------------------------------------------------------------------------------------------ *)
(* method registry                                                                            *)
(* ------------------------------------------------------------------------------------------ *)
(* mirrors cpp_types.py: MethodInvokeInfo *)
Record minfo := { mi_type : cpptype; mi_deref : Z }.

(* g_method_type_dict: dict of dict; modelled as one association list keyed by the pair,
   most recent binding first (a later add for the same pair overwrites). *)
Definition mkey := (string * string)%type.
Definition mkey_eqb (a b : mkey) : bool := String.eqb (fst a) (fst b) && String.eqb (snd a) (snd b).
Definition mreg := list (mkey * minfo).

(* mirrors cpp_types.py: add_method_type_info *)
Definition add_method (r : mreg) (ty m : string) (i : minfo) : mreg := ((ty, m), i) :: r.

(* mirrors cpp_types.py: method_type_info *)
Fixpoint method_type_info (r : mreg) (ty m : string) : option minfo :=
  match r with
  | [] => None
  | (k, i) :: r' => if mkey_eqb k (ty, m) then Some i else method_type_info r' ty m
  end.

(* ------------------------------------------------------------------------------------------ *)
(* enum / namespace registry                                                                  *)
(* ------------------------------------------------------------------------------------------ *)
Definition is_dot (c : ascii) : bool := Ascii.eqb c "."%char.

(* str.split(".") *)
Fixpoint split_dot_aux (s : string) (cur : string) : list string :=
  match s with
  | EmptyString => [cur]
  | String c r => if is_dot c then cur :: split_dot_aux r "" else split_dot_aux r (cur +++ String c "")
  end.
Definition split_dot (s : string) : list string := split_dot_aux s "".

(* str.replace(".", "::") *)
Fixpoint replace_dot (s : string) : string :=
  match s with
  | EmptyString => ""
  | String c r => if is_dot c then "::" +++ replace_dot r else String c (replace_dot r)
  end.

(* NameSpaceInfo tree + ENumInfo: a namespace is identified by its path from the top; the registry is
   the list of defined enums (path, name, values), oldest first; a namespace exists iff it is a
   non-empty prefix of the path of some define_ns call (define_ns is only called by define_enum). *)
Record enum_def := { en_path : list string; en_name : string; en_values : list string }.
Definition ereg := list enum_def.

Fixpoint is_prefix (p l : list string) : bool :=
  match p, l with
  | [], _ => true
  | a :: p', b :: l' => String.eqb a b && is_prefix p' l'
  | _ :: _, [] => false
  end.

Definition ns_exists (r : ereg) (p : list string) : bool :=
  match p with [] => false | _ => existsb (fun e => is_prefix p (en_path e)) r end.

(* NameSpaceInfo.get_enum on the namespace at path p *)
Fixpoint find_enum (r : ereg) (p : list string) (n : string) : option enum_def :=
  match r with
  | [] => None
  | e :: r' => if list_str_eqb (en_path e) p && String.eqb (en_name e) n then Some e else find_enum r' p n
  end.

(* mirrors cpp_types.py: define_enum (+ define_ns): the first definition of (namespace, name) stays *)
Definition define_enum (r : ereg) (ns name : string) (vals : list string) : ereg :=
  let p := split_dot ns in
  match find_enum r p name with
  | Some _ => r
  | None => r ++ [{| en_path := p; en_name := name; en_values := vals |}]
  end.

(* NameSpaceInfo.full_name *)
Definition ns_full_name (p : list string) : string := join_str "." p.
(* ENumInfo.full_name *)
Definition enum_full_name (e : enum_def) : string := ns_full_name (en_path e) +++ "." +++ en_name e.
(* mirrors ENumInfo.value_as_cpp *)
Definition value_as_cpp (e : enum_def) (v : string) : string :=
  replace_dot (ns_full_name (en_path e) +++ "::" +++ v).

(* ------------------------------------------------------------------------------------------ *)
(* metadata -> registries                                                                     *)
(* ------------------------------------------------------------------------------------------ *)
(* one `add_method_type_info` dictionary: absent keys are None *)
Record method_md := {
  md_type_string : option string; md_method_name : option string;
  md_return_type : option string; md_elem : option string; md_coll : option string;
  md_tree : option string; md_deref : option Z }.

Inductive md_item :=
| MdMethod (m : method_md)
| MdEnum (ns name : string) (vals : list string)
| MdOther.   (* any other metadata_type: does not touch these registries *)

Record registry := { r_methods : mreg; r_enums : ereg }.
Definition empty_registry : registry := {| r_methods := []; r_enums := [] |}.

(* mirrors meta_data.py: process_metadata, branch md_type == "add_method_type_info", the type built *)
Definition md_return (m : method_md) : result cpptype :=
  match md_return_type m with
  | Some rt =>
      let p := parse_type rt in
      OK (TTerm {| t_type := p_name p; t_depth := p_depth p; t_const := false; t_tree := md_tree m |})
  | None =>
      match md_elem m with
      | None => Error ErrKey
      | Some el =>
          let pe := parse_type el in
          let pc := match md_coll m with
                    | Some c => parse_type c
                    | None => {| p_name := "std::vector<" +++ str_parsed pe +++ ">"; p_depth := O; p_const := false |}
                    end in
          OK (TColl (term_of_parsed pc) (term_of_parsed pe))
      end
  end.

Definition md_method (r : mreg) (m : method_md) : result mreg :=
  do t <- md_return m;
  let d := match md_deref m with Some z => z | None => 0%Z end in
  match md_type_string m, md_method_name m with
  | Some ty, Some nm => OK (add_method r ty nm {| mi_type := t; mi_deref := d |})
  | _, _ => Error ErrKey
  end.

Definition md_step (r : registry) (i : md_item) : result registry :=
  match i with
  | MdMethod m => do ms <- md_method (r_methods r) m; OK {| r_methods := ms; r_enums := r_enums r |}
  | MdEnum ns n vs => OK {| r_methods := r_methods r; r_enums := define_enum (r_enums r) ns n vs |}
  | MdOther => OK r
  end.

(* mirrors meta_data.py: process_metadata (the loop, for the two registries) *)
Fixpoint process_md (r : registry) (l : list md_item) : result registry :=
  match l with
  | [] => OK r
  | i :: l' => do r' <- md_step r i; process_md r' l'
  end.

(* ------------------------------------------------------------------------------------------ *)
(* member access                                                                              *)
(* ------------------------------------------------------------------------------------------ *)
Fixpoint wrap_deref (n : nat) (e : string) : string :=
  match n with O => e | S k => wrap_deref k ("(*" +++ e +++ ")") end.

(* mirrors cpp_representation.py: base_type_member_access; `extra` is a Python int *)
Definition member_access (e : string) (p_depth : nat) (extra : Z) : string :=
  let depth := (extra + Z.of_nat p_depth)%Z in
  wrap_deref (Z.to_nat (depth - 1)) e +++ (if (0 <? depth)%Z then "->" else ".").

(* mirrors ast_to_cpp_translator.py: determine_type_mf; the second component is the logged warning *)
Definition base_types : list string := ["double"; "float"; "int"].
Definition warn_text (ty m : string) : string :=
  "Warning: assuming that the method '" +++ ty +++ "::" +++ m +++
  "(...)' has return type 'double'. Use cpp_types.add_method_type_info to suppress (or correct) this warning.".

Definition determine_type_mf (r : mreg) (parent : terminal) (m : string) : result (minfo * list string) :=
  match method_type_info r (t_type parent) m with
  | Some i => OK (i, [])
  | None =>
      if mem_str (t_type parent) base_types then Error ErrTranslation
      else OK ({| mi_type := TTerm (mk_term "double" O); mi_deref := 0%Z |}, [warn_text (t_type parent) m])
  end.

(* ------------------------------------------------------------------------------------------ *)
(* expressions over declared types                                                            *)
(* ------------------------------------------------------------------------------------------ *)
(* which Python class the representation has *)
Inductive vkind := KValue | KColl | KEnumVal.   (* cpp_value | cpp_collection | cpp_value typed terminal_enum_value *)
Inductive rep :=
| RVal (e : string) (t : cpptype) (k : vkind)
| RNs (path : list string)                       (* cpp_namespace *)
| REnum (d : enum_def).                          (* cpp_enum *)

Inductive arg :=
| ALit (s : string)                              (* an argument whose C++ text is s *)
| AName (id : string) (attrs : list string).     (* id.a1.a2...: a namespace / enum / enum value reference *)

Inductive step :=
| SCall (m : string) (args : list arg)           (* .m(args) *)
| SAttr (a : string)                             (* .a *)
| SIndex (k : string).                           (* [k] *)

Definition out A := result (A * list string).    (* value and logged warnings, in order *)

(* mirrors ast_to_cpp_translator.py: visit_Attribute *)
Definition do_attr (g : registry) (r : rep) (a : string) : out rep :=
  match r with
  | RVal _ _ KEnumVal => Error ErrValue
  | RVal e t _ =>
      do '(i, w) <- determine_type_mf (r_methods g) (view t) a;
      OK (RVal (member_access e (t_depth (view t)) (mi_deref i) +++ a) (mi_type i) KValue, w)
  | RNs p =>
      if ns_exists (r_enums g) (p ++ [a]) then OK (RNs (p ++ [a]), [])
      else match find_enum (r_enums g) p a with
           | Some d => OK (REnum d, [])
           | None => Error ErrRuntime
           end
  | REnum d =>
      if mem_str a (en_values d)
      then OK (RVal (value_as_cpp d a) (TTerm (mk_term (enum_full_name d) O)) KEnumVal, [])
      else Error ErrRuntime
  end.

(* mirrors visit_Name (resolve_id for a name that is not a lambda argument) followed by visit_Attribute *)
Fixpoint do_attrs (g : registry) (r : rep) (l : list string) : out rep :=
  match l with
  | [] => OK (r, [])
  | a :: l' => do '(r', w) <- do_attr g r a; do '(r'', w') <- do_attrs g r' l'; OK (r'', w ++ w')
  end.

Definition rep_as_cpp (r : rep) : result string :=
  match r with
  | RVal e _ _ => OK e
  | _ => Error ErrAttr     (* cpp_namespace / cpp_enum have no as_cpp *)
  end.

Definition do_arg (g : registry) (a : arg) : out string :=
  match a with
  | ALit s => OK (s, [])
  | AName id attrs =>
      if ns_exists (r_enums g) [id]
      then do '(r, w) <- do_attrs g (RNs [id]) attrs; do s <- rep_as_cpp r; OK (s, w)
      else Error ErrRuntime
  end.

Fixpoint do_args (g : registry) (l : list arg) : out (list string) :=
  match l with
  | [] => OK ([], [])
  | a :: l' => do '(s, w) <- do_arg g a; do '(ss, w') <- do_args g l'; OK (s :: ss, w ++ w')
  end.

(* mirrors ast_to_cpp_translator.py: visit_Call_Member *)
Definition do_call (g : registry) (r : rep) (m : string) (args : list arg) : out rep :=
  match r with
  | RVal e t _ =>
      do '(i, w) <- determine_type_mf (r_methods g) (view t) m;
      let stub := member_access e (t_depth (view t)) (mi_deref i) in
      do '(ss, w') <- do_args g args;
      OK (RVal (stub +++ m +++ "(" +++ join_str "," ss +++ ")") (mi_type i)
               (if is_coll (mi_type i) then KColl else KValue), w ++ w')
  | _ => Error ErrValue
  end.

(* mirrors ast_to_cpp_translator.py: visit_Subscript *)
Definition do_index (r : rep) (k : string) : out rep :=
  match r with
  | RVal e (TColl a el) KColl => OK (RVal (member_access e (t_depth a) 0 +++ "at(" +++ k +++ ")") (TTerm el) KValue, [])
  | RVal _ _ _ => Error ErrRuntime
  | _ => Error ErrAttr
  end.

Definition do_step (g : registry) (r : rep) (s : step) : out rep :=
  match s with
  | SCall m args => do_call g r m args
  | SAttr a => do_attr g r a
  | SIndex k => do_index r k
  end.

Fixpoint do_steps (g : registry) (r : rep) (l : list step) : out rep :=
  match l with
  | [] => OK (r, [])
  | s :: l' => do '(r', w) <- do_step g r s; do '(r'', w') <- do_steps g r' l'; OK (r'', w ++ w')
  end.

(* mirrors cpp_representation.py: dereference_var (one level, only if a pointer) *)
Definition dereference_once (e : string) (t : terminal) : string :=
  match t_depth t with O => e | S _ => "*" +++ e end.

(* mirrors make_sequence_from_collection + statement.loop.emit: the loop header and the iterator value *)
Definition do_iter (r : rep) (it : string) : result (string * rep) :=
  match r with
  | RVal e (TColl a el) KColl =>
      OK ("for (auto &&" +++ it +++ " : " +++ dereference_once e a +++ ")", RVal it (TTerm el) KValue)
  | _ => Error ErrValue      (* as_sequence: "Unable to generate a sequence" *)
  end.

(* ------------------------------------------------------------------------------------------ *)
(* a whole query over a root object:
     ds.SelectMany(root) .SelectMany(lambda x: x<l1>) ... .Select(lambda x: x<last>[.Select(lambda y: y<inner>)]) *)
(* ------------------------------------------------------------------------------------------ *)
Record prog := { pg_levels : list (list step); pg_last : list step; pg_vec : option (list step) }.

Record emitted := {
  em_loops : list string;       (* loop headers in order *)
  em_decl : string;             (* declared type of the output column *)
  em_stmt : string;             (* the statement storing the value, column written COL *)
  em_warn : list string }.

Definition it_name (n : nat) : string := "it" +++ dec_nat n.

Fixpoint do_levels (g : registry) (r : rep) (n : nat) (ls : list (list step))
  : result (rep * nat * list string * list string) :=
  match ls with
  | [] => OK (r, n, [], [])
  | l :: ls' =>
      do '(r1, w) <- do_steps g r l;
      do '(h, r2) <- do_iter r1 (it_name n);
      do '(r3, n', hs, w') <- do_levels g r2 (S n) ls';
      OK (r3, n', h :: hs, w ++ w')
  end.

(* mirrors get_ttree_type + statement.set_var.emit for a cpp_value column *)
Definition column_value (e : string) (t : cpptype) : string * string :=
  let tr := tree_type (view t) in
  (str_terminal tr,
   if String.eqb (t_type tr) (t_type (view t)) then "COL = " +++ e +++ ";"
   else "COL = static_cast<" +++ t_type tr +++ ">(" +++ e +++ ");").

(* mirrors get_ttree_type + statement.push_back.emit for a sequence-of-values column *)
Definition column_vector (e : string) (t : cpptype) : string * string :=
  let tr := tree_type (view t) in
  (str_terminal (view (vector_of tr)),
   if String.eqb (t_type tr) (t_type (view t)) then "COL.push_back(" +++ e +++ ");"
   else "COL.push_back(static_cast<" +++ t_type tr +++ ">(" +++ e +++ "));").

Definition translate (g : registry) (root : rep) (p : prog) : result emitted :=
  do '(r1, n, hs, w1) <- do_levels g root O (pg_levels p);
  do '(r2, w2) <- do_steps g r1 (pg_last p);
  match pg_vec p with
  | None =>
      match r2 with
      | RVal e t _ =>
          let '(d, s) := column_value e t in
          OK {| em_loops := hs; em_decl := d; em_stmt := s; em_warn := w1 ++ w2 |}
      | _ => Error ErrAttr
      end
  | Some inner =>
      do '(h, r3) <- do_iter r2 (it_name n);
      do '(r4, w3) <- do_steps g r3 inner;
      match r4 with
      | RVal e t _ =>
          let '(d, s) := column_vector e t in
          OK {| em_loops := hs ++ [h]; em_decl := d; em_stmt := s; em_warn := w1 ++ w2 ++ w3 |}
      | _ => Error ErrAttr
      end
  end.

(* metadata, then the query *)
Definition run_query (md : list md_item) (root_e root_ty : string) (root_depth : nat) (p : prog) : result emitted :=
  do g <- process_md empty_registry md;
  translate g (RVal root_e (TTerm (mk_term root_ty root_depth)) KValue) p.

(* ------------------------------------------------------------------------------------------ *)
(* the small pointer-type model the access expressions are typed in                           *)
(* ------------------------------------------------------------------------------------------ *)
(* an object type, a built-in pointer to a type, or a class that overloads unary * (yielding its
   pointee) and -> (yielding a pointer to its pointee), such as ElementLink / edm::Ref / std::optional *)
Inductive cty := CObj | CPtr (t : cty) | CSmart (t : cty).

Inductive aexp := AVar | ADeref (e : aexp).            (* v, ( *e ) *)
Inductive acc := AccDot (e : aexp) | AccArrow (e : aexp).   (* e.m, e->m *)

Fixpoint render_aexp (v : string) (e : aexp) : string :=
  match e with AVar => v | ADeref e' => "(*" +++ render_aexp v e' +++ ")" end.
Definition render_acc (v : string) (a : acc) : string :=
  match a with AccDot e => render_aexp v e +++ "." | AccArrow e => render_aexp v e +++ "->" end.

(* type of an expression given the type of the variable; None = ill-typed *)
Fixpoint type_aexp (tv : cty) (e : aexp) : option cty :=
  match e with
  | AVar => Some tv
  | ADeref e' => match type_aexp tv e' with
                 | Some (CPtr t) => Some t
                 | Some (CSmart t) => Some t
                 | _ => None
                 end
  end.

(* `e.m` needs an object; `e->m` needs a pointer to an object or a smart pointer to an object
   (operator-> then yields an object pointer); m is a member of the object type only *)
Definition acc_ok (tv : cty) (a : acc) : bool :=
  match a with
  | AccDot e => match type_aexp tv e with Some CObj => true | _ => false end
  | AccArrow e => match type_aexp tv e with Some (CPtr CObj) => true | Some (CSmart CObj) => true | _ => false end
  end.

Fixpoint nderef (n : nat) : aexp := match n with O => AVar | S k => ADeref (nderef k) end.

(* the access synthesised for a total indirection d *)
Definition synth (d : Z) : acc :=
  if (0 <? d)%Z then AccArrow (nderef (Z.to_nat (d - 1))) else AccDot AVar.

(* how many indirections separate a value of this type from the object *)
Fixpoint indirection (t : cty) : nat :=
  match t with CObj => O | CPtr t' => S (indirection t') | CSmart t' => S (indirection t') end.

(* number of dereferences an access performs before the member is selected *)
Fixpoint aexp_derefs (e : aexp) : nat := match e with AVar => O | ADeref e' => S (aexp_derefs e') end.
Definition acc_derefs (a : acc) : nat :=
  match a with AccDot e => aexp_derefs e | AccArrow e => S (aexp_derefs e) end.

(* ------------------------------------------------------------------------------------------ *)
(* wire format                                                                                *)
(* ------------------------------------------------------------------------------------------ *)
Definition s_parsed (p : parsed) : sexp := SList [s_str (p_name p); s_nat (p_depth p); s_bool (p_const p)].

Definition run_parse (s : sexp) : sexp :=
  match s with SAtom a => s_parsed (parse_type a) | _ => bad_input end.

(* (expr p_depth extra) *)
Definition run_access (s : sexp) : sexp :=
  match s with
  | SList [SAtom e; d; x] =>
      match d_nat d, d_Z x with
      | Some d', Some x' => s_str (member_access e d' x')
      | _, _ => bad_input
      end
  | _ => bad_input
  end.

Definition d_opt {A} (d : sexp -> option A) (s : sexp) : option (option A) :=
  match s with
  | SList [] => Some None
  | SList [x] => match d x with Some a => Some (Some a) | None => None end
  | _ => None
  end.

Definition s_opt {A} (enc : A -> sexp) (o : option A) : sexp :=
  match o with None => SList [] | Some a => SList [enc a] end.

Definition s_terminal (t : terminal) : sexp :=
  SList [s_str (t_type t); s_nat (t_depth t); s_bool (t_const t); s_opt s_str (t_tree t); s_str (str_terminal t)].
Definition s_cpptype (t : cpptype) : sexp :=
  match t with
  | TTerm x => s_tag "term" [s_terminal x]
  | TColl a e => s_tag "coll" [s_terminal a; s_terminal e]
  end.

Definition d_md (s : sexp) : option md_item :=
  match s with
  | SList [SAtom "method"; ts; mn; rt; el; co; tr; de] =>
      match d_opt d_str ts, d_opt d_str mn, d_opt d_str rt, d_opt d_str el, d_opt d_str co, d_opt d_str tr, d_opt d_Z de with
      | Some ts', Some mn', Some rt', Some el', Some co', Some tr', Some de' =>
          Some (MdMethod {| md_type_string := ts'; md_method_name := mn'; md_return_type := rt'; md_elem := el';
                            md_coll := co'; md_tree := tr'; md_deref := de' |})
      | _, _, _, _, _, _, _ => None
      end
  | SList [SAtom "enum"; SAtom ns; SAtom n; vs] =>
      match d_strs vs with Some vs' => Some (MdEnum ns n vs') | None => None end
  | SList [SAtom "other"] => Some MdOther
  | _ => None
  end.

Definition d_mds (s : sexp) : option (list md_item) :=
  match s with SList l => d_list d_md l | _ => None end.

(* (mds type method parent_depth): registry after the metadata, then determine_type_mf *)
Definition run_lookup (s : sexp) : sexp :=
  match s with
  | SList [mds; SAtom ty; SAtom m] =>
      match d_mds mds with
      | Some l =>
          s_result (fun x : minfo * list string =>
                      SList [s_cpptype (mi_type (fst x)); s_Z (mi_deref (fst x)); s_strs (snd x)])
                   (do g <- process_md empty_registry l; determine_type_mf (r_methods g) (mk_term ty O) m)
      | None => bad_input
      end
  | _ => bad_input
  end.

(* (mds id attrs): resolve id.a1...an as visit_Name / visit_Attribute do *)
Definition run_enum (s : sexp) : sexp :=
  match s with
  | SList [mds; SAtom id; attrs] =>
      match d_mds mds, d_strs attrs with
      | Some l, Some al =>
          s_result (fun x : string * list string => s_str (fst x))
                   (do g <- process_md empty_registry l; do_arg g (AName id al))
      | _, _ => bad_input
      end
  | _ => bad_input
  end.

Definition d_arg (s : sexp) : option arg :=
  match s with
  | SList [SAtom "lit"; SAtom x] => Some (ALit x)
  | SList [SAtom "name"; SAtom id; attrs] => option_map (AName id) (d_strs attrs)
  | _ => None
  end.

Definition d_step (s : sexp) : option step :=
  match s with
  | SList [SAtom "call"; SAtom m; SList args] => option_map (SCall m) (d_list d_arg args)
  | SList [SAtom "attr"; SAtom a] => Some (SAttr a)
  | SList [SAtom "index"; SAtom k] => Some (SIndex k)
  | _ => None
  end.

Definition d_steps (s : sexp) : option (list step) :=
  match s with SList l => d_list d_step l | _ => None end.

Definition d_prog (s : sexp) : option prog :=
  match s with
  | SList [SList levels; last; vec] =>
      match d_list d_steps levels, d_steps last, d_opt d_steps vec with
      | Some ls, Some la, Some v => Some {| pg_levels := ls; pg_last := la; pg_vec := v |}
      | _, _, _ => None
      end
  | _ => None
  end.

Definition s_emitted (e : emitted) : sexp :=
  SList [s_strs (em_loops e); s_str (em_decl e); s_str (em_stmt e); s_strs (em_warn e)].

(* (mds root_expr root_type root_depth prog) *)
Definition run_translate (s : sexp) : sexp :=
  match s with
  | SList [mds; SAtom re; SAtom rt; rd; pg] =>
      match d_mds mds, d_nat rd, d_prog pg with
      | Some l, Some d, Some p => s_result s_emitted (run_query l re rt d p)
      | _, _, _ => bad_input
      end
  | _ => bad_input
  end.
