(* Model of the state a long-lived code-generator process carries from one query to the next:
   func_adl_xAOD/common/cpp_types.py   g_method_type_dict, g_toplevel_ns
   func_adl_xAOD/common/cpp_vars.py    unique_var_index
   func_adl_xAOD/common/executor.py    executor.__init__ / add_extended_md / reset /
                                       apply_ast_transformations / write_cpp_files
   func_adl_xAOD/{atlas/xaod,cms/aod,cms/miniaod}/executor.py   __init__ and reset of the three backends
   func_adl_xAOD/common/meta_data.py   process_metadata (what each metadata kind touches)
   func_adl_xAOD/common/local_dataset.py  execute_result_async (the wrapper flow of one query)
   Executable definitions only; proofs are in Proofs/ExecStateProofs.v.

   The translator proper (func_adl's AST passes, cpp_ast_finder, the query visitor, the template
   rendering) is NOT modelled: it enters as Section variables [extract passes finder T], so every
   statement is about the wrapper for any translator that reads the registries.

   [variant] selects the behaviour of the four places the `fix:` commit for C07 touched; [fixed]
   is the code as it is after that commit, [unfixed] the code before it. *)
From FV Require Import Base.Prelude Model.ScriptBlocks.

Inductive backend := Atlas | CmsAod | CmsMiniaod.
Definition backend_eqb (a b : backend) : bool :=
  match a, b with
  | Atlas, Atlas | CmsAod, CmsAod | CmsMiniaod, CmsMiniaod => true
  | _, _ => false
  end.

(* ---------- cpp_types.g_method_type_dict ----------
   Dict[type_string, Dict[method_name, MethodInvokeInfo]] flattened to one insertion-ordered
   association list keyed by (type_string, method_name); the value is the printed return type. *)
Definition mkey := (string * string)%type.
Definition mkey_eqb (a b : mkey) : bool := String.eqb (fst a) (fst b) && String.eqb (snd a) (snd b).
Definition mtab := list (mkey * string).

(* mirrors cpp_types.py: add_method_type_info (dict assignment: update in place or append) *)
Fixpoint mt_set (k : mkey) (v : string) (t : mtab) : mtab :=
  match t with
  | [] => [(k, v)]
  | (k', v') :: r => if mkey_eqb k k' then (k', v) :: r else (k', v') :: mt_set k v r
  end.

(* a sequence of add_method_type_info calls, e.g. define_default_atlas_types *)
Definition mt_merge (t : mtab) (d : list (mkey * string)) : mtab :=
  fold_left (fun acc kv => mt_set (fst kv) (snd kv) acc) d t.

(* mirrors cpp_types.py: method_type_info *)
Fixpoint mt_get (k : mkey) (t : mtab) : option string :=
  match t with
  | [] => None
  | (k', v) :: r => if mkey_eqb k k' then Some v else mt_get k r
  end.

(* ---------- cpp_types.g_toplevel_ns ----------
   Only define_enum creates namespaces, so the namespace tree is a function of the list of
   (namespace, enum name, values) in definition order. *)
Definition enum := (string * string * list string)%type.
Definition nstab := list enum.
Fixpoint ns_has (n nm : string) (t : nstab) : bool :=
  match t with
  | [] => false
  | (n', nm', _) :: r => (String.eqb n n' && String.eqb nm nm') || ns_has n nm r
  end.
(* mirrors cpp_types.py: define_enum (an enum that already exists is returned unchanged) *)
Definition ns_define (n nm : string) (vs : list string) (t : nstab) : nstab :=
  if ns_has n nm t then t else t ++ [(n, nm, vs)].

(* ---------- executor._extended_md : kind -> prototype object (here: its printed value) ---------- *)
Definition extd := list (string * string).
Fixpoint ext_get (k : string) (d : extd) : option string :=
  match d with
  | [] => None
  | (k', v) :: r => if String.eqb k k' then Some v else ext_get k r
  end.
(* dict.update with one key *)
Fixpoint ext_update (k v : string) (d : extd) : extd :=
  match d with
  | [] => [(k, v)]
  | (k', v') :: r => if String.eqb k k' then (k', v) :: r else (k', v') :: ext_update k v r
  end.

(* ---------- metadata declarations, abstracted to what process_metadata does with them ---------- *)
Inductive decl :=
| DMethod (ty meth rtn : string)                  (* add_method_type_info *)
| DEnum (n nm : string) (vals : list string)      (* define_enum *)
| DInject (name : string) (content : list string) (* inject_code: the fields of InjectCodeBlock, flattened *)
| DJob (b : jblock)                               (* add_job_script *)
| DCollection (bk : backend) (name : string)      (* add_{atlas,cms_aod,cms_miniaod}_event_collection_info *)
| DCppFunction (name : string)                    (* add_cpp_function *)
| DExt (kind : string) (payload : option string)  (* any other metadata_type: looked up in extended_properties *)
| DBad (e : err).                                 (* a dictionary process_metadata refuses (no/unknown type: ValueError, missing key: KeyError) *)

(* the objects process_metadata returns (cpp_funcs) *)
Inductive spec :=
| SInject (name : string) (content : list string)
| SJob (b : jblock)
| SColl (bk : backend) (name : string)
| SCpp (name : string)
| SExt (kind : string) (value : string).

(* mirrors meta_data.py: ok_to_add_code_block *)
Fixpoint ok_to_add (name : string) (content : list string) (acc : list spec) : result bool :=
  match acc with
  | [] => OK true
  | SInject n c :: r =>
      if String.eqb n name then (if list_str_eqb c content then OK false else Error ErrValue)
      else ok_to_add name content r
  | _ :: r => ok_to_add name content r
  end.

(* mirrors meta_data.py: process_metadata.  The two registries are module globals and are written
   as each dictionary is met, so they are returned even when a later dictionary raises. *)
Fixpoint process_metadata (ext : extd) (mds : list decl) (mt : mtab) (ns : nstab) (acc : list spec)
  : mtab * nstab * result (list spec) :=
  match mds with
  | [] => (mt, ns, OK acc)
  | d :: r =>
      match d with
      | DMethod ty m rt => process_metadata ext r (mt_set (ty, m) rt mt) ns acc
      | DEnum n nm vs => process_metadata ext r mt (ns_define n nm vs ns) acc
      | DInject n c =>
          match ok_to_add n c acc with
          | Error e => (mt, ns, Error e)
          | OK true => process_metadata ext r mt ns (acc ++ [SInject n c])
          | OK false => process_metadata ext r mt ns acc
          end
      | DJob b => process_metadata ext r mt ns (acc ++ [SJob b])
      | DCollection bk n => process_metadata ext r mt ns (acc ++ [SColl bk n])
      | DCppFunction n => process_metadata ext r mt ns (acc ++ [SCpp n])
      | DExt k payload =>
          match ext_get k ext with
          | Some proto =>
              process_metadata ext r mt ns
                (acc ++ [SExt k (match payload with Some p => p | None => proto end)])
          | None => (mt, ns, Error ErrValue)
          end
      | DBad e => (mt, ns, Error e)
      end
  end.

Fixpoint injects_of (l : list spec) : list spec :=
  match l with [] => [] | SInject n c :: r => SInject n c :: injects_of r | _ :: r => injects_of r end.
Fixpoint jobs_of (l : list spec) : list jblock :=
  match l with [] => [] | SJob b :: r => b :: jobs_of r | _ :: r => jobs_of r end.
Fixpoint found_of (l : list spec) : list (string * string) :=
  match l with [] => [] | SExt k p :: r => (k, p) :: found_of r | _ :: r => found_of r end.
(* the names apply_ast_transformations puts into the method table: declared C++ functions and collections *)
Fixpoint declared_names (l : list spec) : list string :=
  match l with [] => [] | SColl _ n :: r => n :: declared_names r | SCpp n :: r => n :: declared_names r | _ :: r => declared_names r end.
(* mirrors {atlas,cms_aod,cms_miniaod}_executor.build_collection_callback: ValueError for a
   collection declared for another backend *)
Fixpoint callbacks_ok (b : backend) (l : list spec) : bool :=
  match l with
  | [] => true
  | SColl bk _ :: r => backend_eqb bk b && callbacks_ok b r
  | _ :: r => callbacks_ok b r
  end.

(* ---------- state ---------- *)
Record exec := {
  e_backend : backend;
  e_jobs : list jblock;            (* _job_option_blocks *)
  e_inject : list spec;            (* _inject_blocks *)
  e_ext : option extd;             (* _extended_md; None = still bound to the shared default-argument dict *)
  e_found : list (string * string); (* _found_extended_md, flattened in append order *)
  e_methods : list string          (* names in _method_names beyond the backend's built-ins (the table itself is
                                      built in __init__; a query must only ever extend a copy of it) *)
}.

Record state := {
  g_mt : mtab;
  g_ns : nstab;
  g_counter : nat;                 (* cpp_vars.unique_var_index *)
  g_shared_ext : extd;             (* the `extended_md: Dict = {}` default object of executor.__init__ *)
  g_execs : list exec
}.

Definition sigma0 : state :=
  {| g_mt := []; g_ns := []; g_counter := 0; g_shared_ext := []; g_execs := [] |}.

(* what the translation of one query can see *)
(* vw_methods: declared names that persist in the executor's method table (read by cpp_ast_finder) *)
Record view := { vw_mt : mtab; vw_ns : nstab; vw_inject : list spec; vw_jobs : list jblock; vw_methods : list string }.

Record variant := {
  v_reset_on_failure : bool;   (* @_reset_on_failure on apply_ast_transformations and write_cpp_files *)
  v_reset_ns : bool;           (* reset() also clears g_toplevel_ns *)
  v_own_ext : bool;            (* extended_md: Optional[Dict] = None -> every executor owns its dict *)
  v_clear_found : bool;        (* apply_ast_transformations starts with an empty _found_extended_md *)
  v_copy_methods : bool        (* method_names = dict(self._method_names): declared collections/functions extend a copy *)
}.
Definition fixed : variant :=
  {| v_reset_on_failure := true; v_reset_ns := true; v_own_ext := true; v_clear_found := true; v_copy_methods := true |}.
Definition unfixed : variant :=
  {| v_reset_on_failure := false; v_reset_ns := false; v_own_ext := false; v_clear_found := false; v_copy_methods := true |}.

Inductive stage := StExtract | StMetadata | StPasses | StCallbacks | StFinder | StWrite.
Inductive who := New | Reuse (k : nat).

(* the globals together with the executor that handles the current query *)
Record focus := { f_mt : mtab; f_ns : nstab; f_counter : nat; f_shared : extd; f_exe : exec }.

Fixpoint replace_nth {A} (k : nat) (x : A) (l : list A) : list A :=
  match l, k with
  | [], _ => []
  | _ :: r, O => x :: r
  | y :: r, S k' => y :: replace_nth k' x r
  end.

Section Wrapper.
  Variables query body pkg : Type.
  (* the add_method_type_info calls of define_default_{atlas,cms,cms}_types, in order *)
  Variable raw_defaults : backend -> list (mkey * string).
  (* func_adl.ast.extract_metadata: the metadata is read from the query itself *)
  Variable extract : query -> result (list decl * body).
  (* change_extension_functions_to_calls, aggregate_node_transformer, simplify_chained_calls, find_known_functions *)
  Variable passes : body -> result body.
  (* cpp_ast_finder with the executor's method table extended by the declared functions/collections *)
  Variable finder : backend -> list string -> list spec -> body -> result body.
  (* write_cpp_files up to (excluding) its final reset: visitor, add_to_replacement_dict, templates.
     Takes the name counter and returns the new one. *)
  Variable T : backend -> nat -> view -> body -> result pkg * nat.
  Variable v : variant.

  Inductive outcome := Raised (s : stage) (e : err) | Done (p : pkg) (found : list (string * string)).
  Inductive op :=
  | Create (b : backend)
  | Handle (w : who) (b : backend) (docker : option (string * string)) (q : query).

  Definition set_exe (f : focus) (e : exec) : focus :=
    {| f_mt := f_mt f; f_ns := f_ns f; f_counter := f_counter f; f_shared := f_shared f; f_exe := e |}.
  Definition set_found (f : focus) (l : list (string * string)) : focus :=
    let e := f_exe f in
    set_exe f {| e_backend := e_backend e; e_jobs := e_jobs e; e_inject := e_inject e; e_ext := e_ext e; e_found := l; e_methods := e_methods e |}.

  (* mirrors executor.reset + the backend's override (super().reset(); define_default_*_types()) *)
  Definition reset_f (f : focus) : focus :=
    let e := f_exe f in
    {| f_mt := mt_merge [] (raw_defaults (e_backend e));
       f_ns := if v_reset_ns v then [] else f_ns f;
       f_counter := f_counter f;
       f_shared := f_shared f;
       f_exe := {| e_backend := e_backend e; e_jobs := []; e_inject := []; e_ext := Some []; e_found := e_found e; e_methods := e_methods e |} |}.

  (* mirrors executor.add_extended_md: self._extended_md.update(...) mutates whatever dict it is bound to *)
  Definition add_extended_md (k p : string) (f : focus) : focus :=
    let e := f_exe f in
    match e_ext e with
    | None => {| f_mt := f_mt f; f_ns := f_ns f; f_counter := f_counter f;
                 f_shared := ext_update k p (f_shared f); f_exe := e |}
    | Some d => set_exe f {| e_backend := e_backend e; e_jobs := e_jobs e; e_inject := e_inject e;
                             e_ext := Some (ext_update k p d); e_found := e_found e; e_methods := e_methods e |}
    end.
  Definition current_ext (f : focus) : extd :=
    match e_ext (f_exe f) with None => f_shared f | Some d => d end.

  (* an exception leaves the decorated method: _reset_on_failure *)
  Definition fail (f : focus) (s : stage) (e : err) : focus * outcome :=
    (if v_reset_on_failure v then reset_f f else f, Raised s e).

  (* mirrors executor.apply_ast_transformations *)
  Definition apply_ast (f0 : focus) (q : query) : focus * (outcome + body) :=
    let f := if v_clear_found v then set_found f0 [] else f0 in
    match extract q with
    | Error e => let '(f', o) := fail f StExtract e in (f', inl o)
    | OK (mds, bd) =>
        let '(mt, ns, r) := process_metadata (current_ext f) mds (f_mt f) (f_ns f) [] in
        let f1 := {| f_mt := mt; f_ns := ns; f_counter := f_counter f; f_shared := f_shared f; f_exe := f_exe f |} in
        match r with
        | Error e => let '(f', o) := fail f1 StMetadata e in (f', inl o)
        | OK specs =>
            match passes bd with
            | Error e => let '(f', o) := fail f1 StPasses e in (f', inl o)
            | OK bd1 =>
                let f2 := set_found f1 (e_found (f_exe f1) ++ found_of specs) in
                if negb (callbacks_ok (e_backend (f_exe f2)) specs)
                then let '(f', o) := fail f2 StCallbacks ErrValue in (f', inl o)
                else
                  (* method_names.update({md.name: ...}): on the executor's own table unless it was copied *)
                  let f3 := if v_copy_methods v then f2 else
                              let e := f_exe f2 in
                              set_exe f2 {| e_backend := e_backend e; e_jobs := e_jobs e; e_inject := e_inject e;
                                            e_ext := e_ext e; e_found := e_found e;
                                            e_methods := e_methods e ++ declared_names specs |} in
                  match finder (e_backend (f_exe f3)) (e_methods (f_exe f3)) specs bd1 with
                  | Error e => let '(f', o) := fail f3 StFinder e in (f', inl o)
                  | OK bd2 =>
                      let e := f_exe f3 in
                      (set_exe f3 {| e_backend := e_backend e;
                                     e_jobs := e_jobs e ++ jobs_of specs;
                                     e_inject := injects_of specs;
                                     e_ext := e_ext e; e_found := e_found e; e_methods := e_methods e |}, inr bd2)
                  end
            end
        end
    end.

  Definition view_of (f : focus) : view :=
    {| vw_mt := f_mt f; vw_ns := f_ns f; vw_inject := e_inject (f_exe f); vw_jobs := e_jobs (f_exe f);
       vw_methods := e_methods (f_exe f) |}.

  (* mirrors executor.write_cpp_files; `found` is what local_dataset reads with exe.extended_md() afterwards *)
  Definition write_cpp (f : focus) (bd : body) : focus * outcome :=
    let '(r, n') := T (e_backend (f_exe f)) (f_counter f) (view_of f) bd in
    let f' := {| f_mt := f_mt f; f_ns := f_ns f; f_counter := n'; f_shared := f_shared f; f_exe := f_exe f |} in
    match r with
    | Error e => fail f' StWrite e
    | OK p => (reset_f f', Done p (e_found (f_exe f')))
    end.

  (* mirrors local_dataset.execute_result_async lines 134-139 (add_extended_md only when the caller does it) *)
  Definition handle_focus (f : focus) (docker : option (string * string)) (q : query) : focus * outcome :=
    let f1 := match docker with Some (k, p) => add_extended_md k p f | None => f end in
    match apply_ast f1 q with
    | (f2, inl o) => (f2, o)
    | (f2, inr bd) => write_cpp f2 bd
    end.

  (* mirrors executor.__init__ + the backend's __init__ (define_default_*_types on the live registry) *)
  Definition construct (b : backend) (s : state) : state :=
    {| g_mt := mt_merge (g_mt s) (raw_defaults b); g_ns := g_ns s; g_counter := g_counter s;
       g_shared_ext := g_shared_ext s;
       g_execs := g_execs s ++ [ {| e_backend := b; e_jobs := []; e_inject := [];
                                    e_ext := if v_own_ext v then Some [] else None; e_found := [];
                                    e_methods := [] |} ] |}.

  Definition focus_of (s : state) (e : exec) : focus :=
    {| f_mt := g_mt s; f_ns := g_ns s; f_counter := g_counter s; f_shared := g_shared_ext s; f_exe := e |}.
  Definition unfocus (s : state) (k : nat) (f : focus) : state :=
    {| g_mt := f_mt f; g_ns := f_ns f; g_counter := f_counter f; g_shared_ext := f_shared f;
       g_execs := replace_nth k (f_exe f) (g_execs s) |}.

  (* a query handled on an executor of the process; [Reuse k] with no k-th executor creates one *)
  Definition select (w : who) (b : backend) (s : state) : state * nat :=
    match w with
    | Reuse k => if Nat.ltb k (List.length (g_execs s)) then (s, k) else (construct b s, List.length (g_execs s))
    | New => (construct b s, List.length (g_execs s))
    end.

  Definition blank (b : backend) : exec :=
    {| e_backend := b; e_jobs := []; e_inject := []; e_ext := Some []; e_found := []; e_methods := [] |}.

  Definition step (s : state) (o : op) : state * option outcome :=
    match o with
    | Create b => (construct b s, None)
    | Handle w b docker q =>
        let '(s1, k) := select w b s in
        let e := nth k (g_execs s1) (blank b) in
        let '(f, out) := handle_focus (focus_of s1 e) docker q in
        (unfocus s1 k f, Some out)
    end.

  Definition run (h : list op) (s : state) : state := fold_left (fun s o => fst (step s o)) h s.
  Definition output (s : state) (p : op) : option outcome := snd (step s p).

  (* what the property text calls "the package produced (or the error raised)" *)
  Definition observe (o : outcome) : result (pkg * list (string * string)) :=
    match o with Raised _ e => Error e | Done p fnd => OK (p, fnd) end.
End Wrapper.

Arguments Raised {pkg} s e.
Arguments Done {pkg} p found.
Arguments Create {query} b.
Arguments Handle {query} w b docker q.

(* ---------- concrete instance used for the witnesses and on the wire ----------
   A query says at which translator stage it fails (the harness knows: it built the query that
   way); everything that depends on state is decided by the model. *)
Record cquery := {
  cq_extract_err : option err;
  cq_md : list decl;
  cq_passes_err : option err;
  cq_finder_err : option err;
  cq_write_err : option err
}.
Definition cpkg := (nat * view)%type.   (* counter the names start at, and everything the translation saw *)

Definition c_extract (q : cquery) : result (list decl * cquery) :=
  match cq_extract_err q with Some e => Error e | None => OK (cq_md q, q) end.
Definition c_passes (q : cquery) : result cquery :=
  match cq_passes_err q with Some e => Error e | None => OK q end.
Definition c_finder (b : backend) (tbl : list string) (l : list spec) (q : cquery) : result cquery :=
  match cq_finder_err q with Some e => Error e | None => OK q end.
(* the ATLAS executor runs generate_script_block over the accumulated job-script blocks *)
Definition c_T (b : backend) (n : nat) (vw : view) (q : cquery) : result cpkg * nat :=
  match cq_write_err q with
  | Some e => (Error e, S n)
  | None =>
      match (if backend_eqb b Atlas then gen (vw_jobs vw) else OK []) with
      | Error e => (Error e, S n)
      | OK _ => (OK (n, vw), S (S n))
      end
  end.
Definition c_norm (p : cpkg) : cpkg := (0, snd p).

Definition c_step (raw : backend -> list (mkey * string)) (v : variant) :=
  step cquery cquery cpkg raw c_extract c_passes c_finder c_T v.
Definition c_run (raw : backend -> list (mkey * string)) (v : variant) :=
  run cquery cquery cpkg raw c_extract c_passes c_finder c_T v.
Definition c_output (raw : backend -> list (mkey * string)) (v : variant) :=
  output cquery cquery cpkg raw c_extract c_passes c_finder c_T v.

(* ---------- wire format ---------- *)
Definition d_backend (s : sexp) : option backend :=
  match s with
  | SAtom "atlas" => Some Atlas | SAtom "cms_aod" => Some CmsAod | SAtom "cms_miniaod" => Some CmsMiniaod
  | _ => None
  end.
Definition s_backend (b : backend) : sexp :=
  SAtom (match b with Atlas => "atlas" | CmsAod => "cms_aod" | CmsMiniaod => "cms_miniaod" end).

Definition d_err (s : sexp) : option err :=
  match s with
  | SAtom "ValueError" => Some ErrValue | SAtom "RuntimeError" => Some ErrRuntime
  | SAtom "AssertionError" => Some ErrAssert | SAtom "NotImplementedError" => Some ErrNotImpl
  | SAtom "KeyError" => Some ErrKey | SAtom "TypeError" => Some ErrType
  | SAtom "AttributeError" => Some ErrAttr | SAtom "IndexError" => Some ErrIndex
  | SAtom t => Some (ErrOther t)
  | _ => None
  end.
(* ("none") | ("some" x) *)
Definition d_opt {A} (d : sexp -> option A) (s : sexp) : option (option A) :=
  match s with
  | SList [SAtom "none"] => Some None
  | SList [SAtom "some"; x] => match d x with Some a => Some (Some a) | None => None end
  | _ => None
  end.

Definition d_decl (s : sexp) : option decl :=
  match s with
  | SList [SAtom "method"; SAtom ty; SAtom m; SAtom rt] => Some (DMethod ty m rt)
  | SList [SAtom "enum"; SAtom n; SAtom nm; vs] => option_map (DEnum n nm) (d_strs vs)
  | SList [SAtom "inject"; SAtom n; c] => option_map (DInject n) (d_strs c)
  | SList [SAtom "job"; b] => option_map DJob (d_jblock b)
  | SList [SAtom "collection"; bk; SAtom n] => option_map (fun b => DCollection b n) (d_backend bk)
  | SList [SAtom "cppfunction"; SAtom n] => Some (DCppFunction n)
  | SList [SAtom "ext"; SAtom k; p] => option_map (DExt k) (d_opt d_str p)
  | SList [SAtom "bad"; e] => option_map DBad (d_err e)
  | _ => None
  end.

Definition d_cquery (s : sexp) : option cquery :=
  match s with
  | SList [xe; SList mds; pe; fe; we] =>
      match d_opt d_err xe, d_list d_decl mds, d_opt d_err pe, d_opt d_err fe, d_opt d_err we with
      | Some a, Some m, Some b, Some c, Some d =>
          Some {| cq_extract_err := a; cq_md := m; cq_passes_err := b; cq_finder_err := c; cq_write_err := d |}
      | _, _, _, _, _ => None
      end
  | _ => None
  end.

Definition d_pair (s : sexp) : option (string * string) :=
  match s with SList [SAtom a; SAtom b] => Some (a, b) | _ => None end.

Definition d_op (s : sexp) : option (op cquery) :=
  match s with
  | SList [SAtom "create"; b] => option_map Create (d_backend b)
  | SList [SAtom "handle"; w; b; dk; q] =>
      match (match w with
             | SList [SAtom "new"] => Some New
             | SList [SAtom "reuse"; k] => option_map Reuse (d_nat k)
             | _ => None end),
            d_backend b, d_opt d_pair dk, d_cquery q with
      | Some w', Some b', Some dk', Some q' => Some (Handle w' b' dk' q')
      | _, _, _, _ => None
      end
  | _ => None
  end.

Definition d_mentry (s : sexp) : option (mkey * string) :=
  match s with SList [SAtom ty; SAtom m; SAtom rt] => Some ((ty, m), rt) | _ => None end.

Definition d_variant (s : sexp) : option variant :=
  match s with
  | SList [a; b; c; d; e] =>
      match d_bool a, d_bool b, d_bool c, d_bool d, d_bool e with
      | Some a', Some b', Some c', Some d', Some e' =>
          Some {| v_reset_on_failure := a'; v_reset_ns := b'; v_own_ext := c'; v_clear_found := d'; v_copy_methods := e' |}
      | _, _, _, _, _ => None
      end
  | _ => None
  end.

Definition s_mtab (t : mtab) : sexp :=
  SList (map (fun e : mkey * string => SList [SAtom (fst (fst e)); SAtom (snd (fst e)); SAtom (snd e)]) t).
Definition s_nstab (t : nstab) : sexp :=
  SList (map (fun e : enum => SList [SAtom (fst (fst e)); SAtom (snd (fst e)); s_strs (snd e)]) t).
Definition s_pairs (l : list (string * string)) : sexp :=
  SList (map (fun e : string * string => SList [SAtom (fst e); SAtom (snd e)]) l).
Definition spec_name (s : spec) : string :=
  match s with SInject n _ => n | SJob b => jb_name b | SColl _ n => n | SCpp n => n | SExt k _ => k end.
Definition s_view (vw : view) : sexp :=
  SList [s_mtab (vw_mt vw); s_nstab (vw_ns vw); s_strs (map spec_name (vw_inject vw));
         s_strs (map jb_name (vw_jobs vw)); s_strs (vw_methods vw)].
Definition s_stage (s : stage) : sexp :=
  SAtom (match s with StExtract => "extract" | StMetadata => "metadata" | StPasses => "passes"
                    | StCallbacks => "callbacks" | StFinder => "finder" | StWrite => "write" end).
Definition s_outcome (o : option (outcome cpkg)) : sexp :=
  match o with
  | None => s_tag "created" []
  | Some (Raised st e) => s_tag "raised" [s_stage st; SAtom (err_name e)]
  | Some (Done p fnd) => s_tag "done" [s_view (snd p); s_pairs fnd]
  end.
Definition s_exec (e : exec) : sexp :=
  SList [s_backend (e_backend e); s_strs (map jb_name (e_jobs e)); s_strs (map spec_name (e_inject e));
         (match e_ext e with None => s_tag "shared" [] | Some d => s_tag "own" [s_strs (map fst d)] end);
         s_pairs (e_found e); s_strs (e_methods e)].
Definition s_state (s : state) : sexp :=
  SList [s_mtab (g_mt s); s_nstab (g_ns s); s_strs (map fst (g_shared_ext s)); SList (map s_exec (g_execs s))].

(* every operation's outcome and the state after it *)
Fixpoint trace (raw : backend -> list (mkey * string)) (v : variant) (h : list (op cquery)) (s : state) : list sexp :=
  match h with
  | [] => []
  | o :: r =>
      let '(s', out) := c_step raw v s o in
      SList [s_outcome out; s_state s'] :: trace raw v r s'
  end.

(* input: (variant (atlas-defaults cms_aod-defaults cms_miniaod-defaults) (op ...)) *)
Definition run_history (s : sexp) : sexp :=
  match s with
  | SList [vs; SList [SList da; SList dc; SList dm]; SList ops] =>
      match d_variant vs, d_list d_mentry da, d_list d_mentry dc, d_list d_mentry dm, d_list d_op ops with
      | Some v, Some a, Some c, Some m, Some h =>
          let raw := fun b => match b with Atlas => a | CmsAod => c | CmsMiniaod => m end in
          SList (trace raw v h sigma0)
      | _, _, _, _, _ => bad_input
      end
  | _ => bad_input
  end.
