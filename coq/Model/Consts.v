(* How constants of a query reach the generated C++ text (C18).
   Hand model of
     func_adl_xAOD/common/cpp_vars.py            : cpp_string_literal
     func_adl_xAOD/common/ast_to_cpp_translator.py: query_ast_visitor.visit_Constant
     func_adl_xAOD/common/cpp_ast.py              : replace_whole_words, process_ast_node (argument substitution)
     func_adl_xAOD/{atlas/xaod,cms/aod,cms/miniaod}/event_collections.py : get_running_code, token initialiser
     func_adl_xAOD/{atlas/xaod,cms/aod,cms/miniaod}/query_ast_visitor.py : book_*_ttree.emit, *_ttree_fill.emit
     func_adl_xAOD/atlas/xaod/jets.py             : getAttributeFloat code line
   Strings are byte strings: a Python str is represented by its UTF-8 encoding, which is what the
   package writer puts into the file; escaping only touches ASCII bytes, so working on code points
   (Python) or on bytes (here) gives the same text.  A float is carried as the text Python's repr
   prints for it.  No proofs here. *)
From FV Require Import Base.Prelude Model.CppLex.

Inductive const :=
| CInt (z : Z)
| CFloat (repr : string)      (* str(value) of a Python float *)
| CBool (b : bool)
| CStr (s : string)
| COther.                     (* None, bytes, complex, Ellipsis: anything else an ast.Constant can hold *)

Inductive ctype := TInt | TDouble | TBool | TString.
Definition ctype_name (t : ctype) : string :=
  match t with TInt => "int" | TDouble => "double" | TBool => "bool" | TString => "string" end.

(* ---------- cpp_vars.py ---------- *)
Definition octal3 (n : nat) : string :=
  String (digit_char (n / 64)) (String (digit_char ((n / 8) mod 8)) (String (digit_char (n mod 8)) EmptyString)).

(* mirrors cpp_vars.py: cpp_string_literal, loop body *)
Definition escape_char (c : ascii) : string :=
  let n := nat_of_ascii c in
  if (n =? 34)%nat then "\"""
  else if (n =? 92)%nat then "\\"
  else if (n =? 10)%nat then "\n"
  else if (n =? 9)%nat then "\t"
  else if (n =? 13)%nat then "\r"
  else if (n <? 32)%nat || (n =? 127)%nat then String "\"%char (octal3 n)
  else String c EmptyString.

Fixpoint escape (s : string) : string :=
  match s with
  | EmptyString => EmptyString
  | String c r => escape_char c +++ escape r
  end.

(* mirrors cpp_vars.py: cpp_string_literal *)
Definition cpp_string_literal (s : string) : string := String """"%char (escape s +++ """").

(* ---------- ast_to_cpp_translator.py ---------- *)
(* math.isfinite on the value, read off its repr text *)
Definition nonfinite_repr (t : string) : bool :=
  String.eqb t "inf" || String.eqb t "-inf" || String.eqb t "nan".

(* mirrors ast_to_cpp_translator.py: query_ast_visitor.visit_Constant  -> (C++ text, declared type) *)
Definition render (c : const) : result (string * ctype) :=
  match c with
  | CStr s => OK (cpp_string_literal s, TString)
  | CInt z => if (9223372036854775808 <=? Z.abs z)%Z then Error ErrValue else OK (dec_Z z, TInt)
  | CFloat t => if nonfinite_repr t then Error ErrValue else OK (t, TDouble)
  | CBool b => OK (if b then "true" else "false", TBool)
  | COther => Error ErrValue
  end.

(* The same function before the fix commits recorded in known_findings.json (strings pasted between
   quotes, no finiteness test, no width test).  Kept only to state what was wrong. *)
Definition render_v0 (c : const) : result (string * ctype) :=
  match c with
  | CStr s => OK (String """"%char (s +++ """"), TString)
  | CInt z => OK (dec_Z z, TInt)
  | CFloat t => OK (t, TDouble)
  | CBool b => OK (if b then "true" else "false", TBool)
  | COther => Error ErrValue
  end.

(* ---------- Python's repr of a float (float_repr_style 'short', format code 'r') ---------- *)
(*   [-] digits . digits  |  [-] digits [. digits] e (+|-) digit digit+  |  [-]inf | nan      *)
Definition is_e_lower (c : ascii) : bool := (nat_of_ascii c =? 101)%nat.
Definition py_exp (s : string) : bool :=
  match s with
  | String c r => (is_plus c || is_minus c) && all_digits r && (2 <=? String.length r)%nat
  | EmptyString => false
  end.
Definition py_finite_body (s : string) : bool :=
  match break_at is_e_lower s with
  | (m, None) =>
    match break_at is_dot m with
    | (ip, Some (_, fp)) => digits1 ip && digits1 fp
    | (_, None) => false
    end
  | (m, Some (_, ex)) =>
    py_exp ex &&
    match break_at is_dot m with
    | (ip, Some (_, fp)) => digits1 ip && digits1 fp
    | (ip, None) => digits1 ip
    end
  end.
Definition strip_minus (s : string) : bool * string :=
  match s with String c r => if is_minus c then (true, r) else (false, s) | EmptyString => (false, s) end.
Definition py_float_finite (t : string) : bool := py_finite_body (snd (strip_minus t)).
Definition py_float_repr (t : string) : bool := py_float_finite t || nonfinite_repr t.

(* ---------- cpp_ast.py: replace_whole_words / process_ast_node ---------- *)
(* \w on bytes: ASCII letters, digits, underscore; bytes >= 128 stand for non-ASCII letters *)
Definition is_word (c : ascii) : bool := is_idchar c || (128 <=? nat_of_ascii c)%nat.
Fixpoint starts_with (w s : string) : option string :=
  match w with
  | EmptyString => Some s
  | String a w' => match s with
                   | String b s' => if Ascii.eqb a b then starts_with w' s' else None
                   | EmptyString => None
                   end
  end.
(* the literal that stands in `line` directly after the fixed text `pre`, and what follows it *)
Definition literal_at (pre line : string) : option (literal * string) :=
  match starts_with pre line with Some r => lex_prefix r | None => None end.

Definition boundary_after (rest : string) : bool :=
  match rest with EmptyString => true | String c _ => negb (is_word c) end.

(* the first (name, text) pair whose name stands at the start of s as a whole word: regex alternation
   \b(?:n1|n2|...)\b tries the names in list order (a name listed twice: the first wins) *)
Fixpoint match_name (repl : list (string * string)) (s : string) : option (string * nat) :=
  match repl with
  | [] => None
  | (w, d) :: more =>
    match starts_with w s with
    | Some rest => if boundary_after rest then Some (d, String.length w) else match_name more s
    | None => match_name more s
    end
  end.

(* mirrors cpp_ast.py: replace_whole_words -- one pass, leftmost non-overlapping whole-word occurrences of
   any parameter name (names are made of word characters) are replaced, the inserted text is not rescanned *)
Fixpoint replace_words_aux (repl : list (string * string)) (skip : nat) (prev_word : bool) (s : string) : string :=
  match s with
  | EmptyString => EmptyString
  | String c r =>
    match skip with
    | S k => replace_words_aux repl k (is_word c) r
    | O =>
      match (if prev_word then None else match_name repl s) with
      | Some (d, n) => d +++ replace_words_aux repl (n - 1) (is_word c) r
      | None => String c (replace_words_aux repl 0 (is_word c) r)
      end
    end
  end.
Definition subst_line (repl : list (string * string)) (line : string) : string :=
  match repl with [] => line | _ => replace_words_aux repl 0 false line end.

Inductive backend := Atlas | CmsAod | CmsMiniaod.

(* mirrors event_collections.py (three files): get_running_code, the line that names the bank;
   for miniAOD the token initialiser of get_running_code_CPPCodeValue.  ty = the container type text *)
Definition bank_template (b : backend) (ty : string) : string :=
  match b with
  | Atlas => "ANA_CHECK (evtStore()->retrieve(result, collection_name));"
  | CmsAod => "iEvent.getByLabel(collection_name, result);"
  | CmsMiniaod => "consumes<" +++ ty +++ ">(edm::InputTag(collection_name))"
  end.

(* cms/miniaod/event_collections.py: cms_miniaod_collections, container type names *)
Definition miniaod_types : list string := ["pat::MuonCollection"; "reco::VertexCollection"; "pat::ElectronCollection"].

(* the bank name is an ast.Constant str (get_collection refuses anything else); its rep is
   visit_Constant's text; repl_list = [("collection_name", text)] *)
Definition bank_line (b : backend) (ty name : string) : result string :=
  match render (CStr name) with
  | OK (txt, _) => OK (subst_line [("collection_name", txt)] (bank_template b ty))
  | Error e => Error e
  end.

(* mirrors atlas/xaod/jets.py getAttributeFloat: repl_list = [("obj_j", object), ("moment_name", text)] *)
Definition attribute_line (obj attr : string) : result string :=
  match render (CStr attr) with
  | OK (txt, _) =>
      OK (subst_line [("obj_j", obj); ("moment_name", txt)] "auto result = obj_j->getAttribute<float>(moment_name);")
  | Error e => Error e
  end.

(* a user C++ function declared by add_cpp_function metadata with the parameters (p0, p1, p2) and the code line
   below, called as f(obj, <constant>, <later argument>).  mirrors cpp_ast.py: build_CPPCodeValue (args = the
   declared parameter names) + process_ast_node: repl_list = zip(parameter names, C++ text of the call's
   arguments), every code line goes through replace_whole_words *)
Definition user_template (p0 p1 p2 : string) : string :=
  "double result = g_labelled_value(*" +++ p0 +++ ", " +++ p1 +++ ", " +++ p2 +++ ");".
Definition user_call_line (p0 p1 p2 obj : string) (c : const) (later : string) : result string :=
  match render c with
  | OK (txt, _) => OK (subst_line [(p0, obj); (p1, txt); (p2, later)] (user_template p0 p1 p2))
  | Error e => Error e
  end.
(* the parameter-name triples the check declares *)
Definition user_params : list (string * (string * string)) :=
  [("jet", ("label", "bin")); ("obj", ("name", "idx")); ("p", ("s", "n")); ("particle", ("tag", "pt"))].

(* ---------- query_ast_visitor.py (three files) ---------- *)
(* mirrors book_xaod_ttree.emit / book_cms_aod_ttree.emit / book_cms_miniaod_ttree.emit;
   leaves = (column name, C++ variable) *)
Definition branch_line (leaf : string * string) : string :=
  "myTree->Branch(" +++ cpp_string_literal (fst leaf) +++ ", &" +++ snd leaf +++ ");".
Definition book_lines (b : backend) (tree : string) (leaves : list (string * string)) : list string :=
  match b with
  | Atlas =>
      ("ANA_CHECK (book (TTree (" +++ cpp_string_literal tree +++ ", ""My analysis ntuple"")));")
      :: ("auto myTree = tree (" +++ cpp_string_literal tree +++ ");")
      :: map branch_line leaves
  | _ =>
      "edm::Service<TFileService> fs;"
      :: ("myTree = fs->make<TTree>(" +++ cpp_string_literal tree +++ ", ""My analysis ntuple"");")
      :: map branch_line leaves
  end.
(* mirrors xaod_ttree_fill.emit / cms_*_ttree_fill.emit *)
Definition fill_line (b : backend) (tree : string) : string :=
  match b with
  | Atlas => "tree(" +++ cpp_string_literal tree +++ ")->Fill();"
  | _ => "myTree->Fill();"
  end.

(* ---------- wire ---------- *)
Definition d_const (s : sexp) : option const :=
  match s with
  | SList [SAtom "int"; z] => option_map CInt (d_Z z)
  | SList [SAtom "float"; SAtom t] => Some (CFloat t)
  | SList [SAtom "bool"; b] => option_map CBool (d_bool b)
  | SList [SAtom "str"; SAtom t] => Some (CStr t)
  | SList [SAtom "other"] => Some COther
  | _ => None
  end.
Definition d_backend (s : sexp) : option backend :=
  match s with
  | SAtom "atlas" => Some Atlas
  | SAtom "cms_aod" => Some CmsAod
  | SAtom "cms_miniaod" => Some CmsMiniaod
  | _ => None
  end.
Definition s_rendered (p : string * ctype) : sexp := SList [SAtom (fst p); SAtom (ctype_name (snd p))].

(* const -> (ok (text type)) | (error E) *)
Definition run_render (a : sexp) : sexp :=
  match d_const a with Some c => s_result s_rendered (render c) | None => bad_input end.
Definition run_render_v0 (a : sexp) : sexp :=
  match d_const a with Some c => s_result s_rendered (render_v0 c) | None => bad_input end.

(* (backend type name) -> (ok line) *)
Definition run_bank (a : sexp) : sexp :=
  match a with
  | SList [b; SAtom ty; SAtom name] =>
      match d_backend b with Some b' => s_result s_str (bank_line b' ty name) | None => bad_input end
  | _ => bad_input
  end.
(* (object attr) -> (ok line) *)
Definition run_attribute (a : sexp) : sexp :=
  match a with
  | SList [SAtom obj; SAtom attr] => s_result s_str (attribute_line obj attr)
  | _ => bad_input
  end.
Definition d_leaf (s : sexp) : option (string * string) :=
  match s with SList [SAtom n; SAtom v] => Some (n, v) | _ => None end.
(* (backend tree ((col var) ...)) -> (booking lines..., fill line) *)
Definition run_book (a : sexp) : sexp :=
  match a with
  | SList [b; SAtom tree; SList ls] =>
      match d_backend b, d_list d_leaf ls with
      | Some b', Some leaves => SList [s_strs (book_lines b' tree leaves); SAtom (fill_line b' tree)]
      | _, _ => bad_input
      end
  | _ => bad_input
  end.
(* (prefix line) -> ("some" literal rest) | ("none") *)
Definition run_literal_at (a : sexp) : sexp :=
  match a with
  | SList [SAtom pre; SAtom line] =>
      match literal_at pre line with
      | Some (l, rest) => s_tag "some" [s_literal l; SAtom rest]
      | None => s_tag "none" []
      end
  | _ => bad_input
  end.
(* (p0 p1 p2 obj const later) -> (ok line) | (error E) *)
Definition run_user_call (a : sexp) : sexp :=
  match a with
  | SList [SAtom p0; SAtom p1; SAtom p2; SAtom obj; c; SAtom later] =>
      match d_const c with Some c' => s_result s_str (user_call_line p0 p1 p2 obj c' later) | None => bad_input end
  | _ => bad_input
  end.
(* float repr text -> in Python's finite repr grammar? in the C++ floating-literal grammar (sign stripped)? *)
Definition run_float_grammar (a : sexp) : sexp :=
  match a with
  | SAtom t => SList [s_bool (py_float_repr t); s_bool (py_float_finite t); s_bool (cpp_float_lit (snd (strip_minus t)))]
  | _ => bad_input
  end.
