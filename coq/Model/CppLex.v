(* The value of a C++ literal token: a total lexer for the literal forms the translator can emit
   (ISO C++ [lex.icon], [lex.fcon], [lex.bool], [lex.string], [lex.ccon] escape sequences,
   [lex.ppnumber] maximal munch).  Everything outside the modelled forms (integer / floating
   suffixes, octal / hex / binary integer literals, \u \U universal character names, raw strings,
   encoding prefixes) is refused with None: the lexer is fail-closed.  Source and execution
   character set are taken to be the same byte-transparent encoding (UTF-8 in, UTF-8 out), no
   trigraphs (C++17 / GNU mode).  No proofs here. *)
From FV Require Import Base.Prelude.

Inductive literal :=
| LInt (z : Z)                                   (* value of [-]decimal-literal *)
| LFloat (neg : bool) (mant : N) (exp10 : Z)     (* (-1)^neg * mant * 10^exp10 *)
| LBool (b : bool)
| LStr (s : string).                             (* the bytes of the array, without the final NUL *)

(* ---------- character classes ---------- *)
Definition code (c : ascii) : nat := nat_of_ascii c.
Definition is_octal (c : ascii) : bool := (48 <=? code c)%nat && (code c <=? 55)%nat.
Definition is_hex (c : ascii) : bool :=
  is_digit c || ((65 <=? code c)%nat && (code c <=? 70)%nat) || ((97 <=? code c)%nat && (code c <=? 102)%nat).
Definition hex_val (c : ascii) : N :=
  if is_digit c then N.of_nat (code c - 48)
  else if (97 <=? code c)%nat then N.of_nat (code c - 87) else N.of_nat (code c - 55).
Definition is_alpha_ (c : ascii) : bool :=
  ((65 <=? code c)%nat && (code c <=? 90)%nat) || ((97 <=? code c)%nat && (code c <=? 122)%nat) || (code c =? 95)%nat.
Definition is_idchar (c : ascii) : bool := is_alpha_ c || is_digit c.

(* a character that may stand for itself inside an ordinary string literal: any member of the
   source character set except double quote, backslash and new-line.  Of the control characters only
   the three white-space members of the basic source character set (HT, VT, FF) are admitted. *)
Definition is_schar (c : ascii) : bool :=
  let n := code c in
  if (n =? 34)%nat || (n =? 92)%nat then false
  else if (n <? 32)%nat then (n =? 9)%nat || (n =? 11)%nat || (n =? 12)%nat
  else negb (n =? 127)%nat.

(* simple-escape-sequence: the character after the backslash -> the byte it denotes *)
Definition simple_escape (c : ascii) : option ascii :=
  match c with
  | "'"%char => Some "'"%char
  | """"%char => Some """"%char
  | "?"%char => Some "?"%char
  | "\"%char => Some "\"%char
  | "a"%char => Some (ascii_of_nat 7)
  | "b"%char => Some (ascii_of_nat 8)
  | "f"%char => Some (ascii_of_nat 12)
  | "n"%char => Some (ascii_of_nat 10)
  | "r"%char => Some (ascii_of_nat 13)
  | "t"%char => Some (ascii_of_nat 9)
  | "v"%char => Some (ascii_of_nat 11)
  | _ => None
  end.

Definition byte_of_N (v : N) : option ascii :=
  if (v <? 256)%N then Some (ascii_of_N v) else None.

(* ---------- ordinary string literal ---------- *)
(* One character per step.  [SOct k v]: k octal digits read so far (1 or 2) with value v;
   [SHex started v]: after \x. *)
Inductive sstate := SNorm | SEsc | SOct (k : nat) (v : N) | SHex (started : bool) (v : N).

Definition cons_res (b : option ascii) (r : option (string * string)) : option (string * string) :=
  match b, r with
  | Some b', Some (v, rest) => Some (String b' v, rest)
  | _, _ => None
  end.

(* [lex_sbody st s]: s is the text after the opening quote; result = (value, text after the closing quote) *)
Fixpoint lex_sbody (st : sstate) (s : string) : option (string * string) :=
  match s with
  | EmptyString => None                                   (* unterminated *)
  | String c r =>
    let norm (pending : option (option ascii)) :=
      (* behave as in the normal state on c, after flushing a pending byte *)
      let here :=
        if (code c =? 34)%nat then Some (EmptyString, r)
        else if (code c =? 92)%nat then lex_sbody SEsc r
        else if is_schar c then cons_res (Some c) (lex_sbody SNorm r)
        else None in
      match pending with None => here | Some b => cons_res b here end in
    match st with
    | SNorm => norm None
    | SEsc =>
      match simple_escape c with
      | Some b => cons_res (Some b) (lex_sbody SNorm r)
      | None =>
        if is_octal c then lex_sbody (SOct 1 (N.of_nat (code c - 48))) r
        else if (code c =? 120)%nat then lex_sbody (SHex false 0%N) r
        else None
      end
    | SOct k v =>
      if is_octal c then
        let v' := (v * 8 + N.of_nat (code c - 48))%N in
        match k with
        | 1%nat => lex_sbody (SOct 2 v') r
        | _ => cons_res (byte_of_N v') (lex_sbody SNorm r)     (* third digit ends the escape *)
        end
      else norm (Some (byte_of_N v))
    | SHex started v =>
      if is_hex c then lex_sbody (SHex true (v * 16 + hex_val c)%N) r
      else if started then norm (Some (byte_of_N v)) else None
    end
  end.

(* ---------- numbers ---------- *)
Fixpoint all_digits (s : string) : bool :=
  match s with EmptyString => true | String c r => is_digit c && all_digits r end.
Definition nonempty (s : string) : bool := match s with EmptyString => false | _ => true end.
Definition digits1 (s : string) : bool := nonempty s && all_digits s.

(* split at the first occurrence of a character satisfying p: (before, Some (that char, after)) *)
Fixpoint break_at (p : ascii -> bool) (s : string) : string * option (ascii * string) :=
  match s with
  | EmptyString => (EmptyString, None)
  | String c r => if p c then (EmptyString, Some (c, r))
                  else let '(a, b) := break_at p r in (String c a, b)
  end.
Definition is_dot (c : ascii) : bool := (code c =? 46)%nat.
Definition is_e (c : ascii) : bool := (code c =? 101)%nat || (code c =? 69)%nat.

(* exponent-part after the e/E: sign? digit-sequence *)
Definition is_plus (c : ascii) : bool := (code c =? 43)%nat.
Definition is_minus (c : ascii) : bool := (code c =? 45)%nat.
Definition exp_value (s : string) : option Z :=
  match s with
  | String c r =>
    if is_plus c then (if digits1 r then option_map Z.of_N (parse_N r) else None)
    else if is_minus c then (if digits1 r then option_map (fun n => Z.opp (Z.of_N n)) (parse_N r) else None)
    else if digits1 s then option_map Z.of_N (parse_N s) else None
  | EmptyString => None
  end.

(* significand: digit-seq? . digit-seq | digit-seq . | digit-seq (the last only with an exponent) *)
Definition signif_value (s : string) (has_exp : bool) : option (N * Z) :=
  match break_at is_dot s with
  | (ip, None) => if has_exp && nonempty ip && all_digits ip
                  then option_map (fun m => (m, 0%Z)) (parse_N ip) else None
  | (ip, Some (_, fp)) =>
    if all_digits ip && all_digits fp && (nonempty ip || nonempty fp)
    then match parse_N_acc (ip +++ fp) 0%N with
         | Some m => Some (m, Z.opp (Z.of_nat (String.length fp)))
         | None => None
         end
    else None
  end.

(* decimal floating literal without suffix: (mantissa, exponent of ten) *)
Definition float_value (tok : string) : option (N * Z) :=
  match break_at is_e tok with
  | (sg, None) => signif_value sg false
  | (sg, Some (_, ex)) =>
    match signif_value sg true, exp_value ex with
    | Some (m, e1), Some e2 => Some (m, (e1 + e2)%Z)
    | _, _ => None
    end
  end.
Definition cpp_float_lit (tok : string) : bool :=
  match float_value tok with Some _ => true | None => false end.

(* decimal integer literal without suffix: nonzero-digit digit* ; "0" (the octal literal zero).
   The value must fit long long (the widest type an unsuffixed decimal literal may take). *)
Definition max_int64 : N := 9223372036854775807%N.
Definition leading_zero (tok : string) : bool :=
  match tok with String c (String _ _) => (code c =? 48)%nat | _ => false end.
Definition int_value (tok : string) : option N :=
  if leading_zero tok then None                  (* octal literals are not modelled *)
  else if digits1 tok
       then match parse_N tok with
            | Some n => if (n <=? max_int64)%N then Some n else None
            | None => None
            end
       else None.

(* pp-number maximal munch: after the first character, digits, identifier characters, '.', and a
   sign directly after e E p P all continue the token *)
Definition is_expch (c : ascii) : bool :=
  is_e c || (code c =? 112)%nat || (code c =? 80)%nat.
Fixpoint ppnum (prev_e : bool) (s : string) : string * string :=
  match s with
  | EmptyString => (EmptyString, EmptyString)
  | String c r =>
    if is_idchar c || is_dot c || (prev_e && (is_plus c || is_minus c))
    then let '(a, b) := ppnum (is_expch c) r in (String c a, b)
    else (EmptyString, s)
  end.
Fixpoint ident (s : string) : string * string :=
  match s with
  | EmptyString => (EmptyString, EmptyString)
  | String c r => if is_idchar c then let '(a, b) := ident r in (String c a, b) else (EmptyString, s)
  end.

Definition number_value (neg : bool) (tok : string) : option literal :=
  match int_value tok with
  | Some n => Some (LInt (if neg then Z.opp (Z.of_N n) else Z.of_N n))
  | None => match float_value tok with
            | Some (m, e) => Some (LFloat neg m e)
            | None => None
            end
  end.

Definition starts_number (s : string) : bool :=
  match s with
  | String c r => is_digit c || (is_dot c && match r with String d _ => is_digit d | _ => false end)
  | _ => false
  end.

(* One literal at the start of s (an optional unary minus directly in front of a number is taken
   with it) and the text after it. *)
Definition lex_prefix (s : string) : option (literal * string) :=
  match s with
  | String c r =>
    if (code c =? 34)%nat then option_map (fun vr => (LStr (fst vr), snd vr)) (lex_sbody SNorm r)
    else if is_minus c then
      if starts_number r then
        let tr := ppnum false r in option_map (fun l => (l, snd tr)) (number_value true (fst tr))
      else None
    else if starts_number s then
      let tr := ppnum false s in option_map (fun l => (l, snd tr)) (number_value false (fst tr))
    else if is_alpha_ c then
      let tr := ident s in
      if String.eqb (fst tr) "true" then Some (LBool true, snd tr)
      else if String.eqb (fst tr) "false" then Some (LBool false, snd tr)
      else None
    else None
  | EmptyString => None
  end.

(* the whole text is exactly one literal *)
Definition lex (s : string) : option literal :=
  match lex_prefix s with Some (l, EmptyString) => Some l | _ => None end.

(* C++ type of the value denoted by [-]decimal-literal on an LP64 platform ([lex.icon] table):
   the literal itself gets the first of int, long in which its magnitude fits. *)
Definition int32_range (z : Z) : Prop := (- 2147483648 <= z < 2147483648)%Z.
Definition int32_rangeb (z : Z) : bool := (- 2147483648 <=? z)%Z && (z <? 2147483648)%Z.
Definition int64_mag (z : Z) : Prop := (Z.abs z <= 9223372036854775807)%Z.

(* ---------- wire ---------- *)
Definition s_literal (l : literal) : sexp :=
  match l with
  | LInt z => s_tag "int" [s_Z z]
  | LFloat neg m e => s_tag "float" [s_bool neg; SAtom (dec_N m); s_Z e]
  | LBool b => s_tag "bool" [s_bool b]
  | LStr s => s_tag "str" [SAtom s]
  end.

(* text -> ("some" literal rest) | ("none") *)
Definition run_lex_prefix (a : sexp) : sexp :=
  match a with
  | SAtom t => match lex_prefix t with
               | Some (l, rest) => s_tag "some" [s_literal l; SAtom rest]
               | None => s_tag "none" []
               end
  | _ => bad_input
  end.
