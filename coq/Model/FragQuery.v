(* Fragment F1: whole queries over the rows of fragment F (Model/FragTranslate.v).

       query  ::=  ds [.Where(lambda e: cond)] . body
       body   ::=  Select(lambda e: ROW)                                  one row per event (ROW as in F)
                |  SelectMany(lambda e: e.<Coll>("bank")[.Where(lambda x: pred)]
                                         .Select(lambda x: PROW))         one row per passing element
       cond   ::=  an event-level expression of F (arithmetic / comparison over Count()/Sum())
       PROW   ::=  bare value | tuple | list | dict of element-level arithmetic (pa)

   The translator mirrors ast_to_cpp_translator.py for these shapes: call_Where on the event stream (the
   condition's code at event level, then an if-block that holds everything downstream), call_SelectMany /
   call_Select over a collection (loop, one nested if per predicate) and call_ResultTTree with the fill
   scope inside the loop (one assignment per column, then Fill, in the innermost block).
   Its text is compared with the implementation's on every run (tools/fv/props/c01.py).
   Reference semantics: streaming LINQ - the rows of an event are [] when the filter rejects, [row] for a
   Select, one row per passing element (in collection order) for a SelectMany.
   Executable definitions only; no proofs here. *)
From FV Require Import Base.Prelude Cpp.IR Cpp.Exec Model.Lowering Model.FragTranslate.
From Coq Require Import QArith.
Close Scope Q_scope.

Definition prow := list (string * bexp).                     (* branch name, element-level column *)
Fixpoint prow_nifs (cols : prow) : nat := match cols with [] => 0 | (_, b) :: t => nifs b + prow_nifs t end.
Inductive qbody :=
| QRow (r : row)
| QMany (cr : collref) (ps : guard) (cols : prow).
Record query := { q_filter : option ex; q_body : qbody }.

Definition body_size (b : qbody) : nat := match b with QRow r => row_size r | QMany _ g cols => 2 + gsize g + prow_nifs cols end.

(* ---------- translation ---------- *)
(* the conditionals of all columns come first (declarations, then the if/else statements), then the assignments *)
Fixpoint prow_ds (cols : prow) (m : nat) : list decl :=
  match cols with [] => [] | (_, body) :: t => bdecls body m ++ prow_ds t (m + nifs body) end.
Fixpoint prow_pre (iv : string) (arrow : bool) (cols : prow) (m : nat) : stmts :=
  match cols with [] => SNil | (_, body) :: t => app_stmts (bpre iv arrow body m) (prow_pre iv arrow t (m + nifs body)) end.
Fixpoint prow_sets (iv : string) (arrow : bool) (cols : prow) (nf k m : nat) : stmts :=
  match cols with
  | [] => SNil
  | (name, body) :: t => SCons (SSet (mem_name name (nf + k)) None (bx iv arrow body m)) (prow_sets iv arrow t nf (S k) (m + nifs body))
  end.
Fixpoint prow_members (cols : prow) (nf k : nat) : list member :=
  match cols with
  | [] => []
  | (name, body) :: t => {| m_type := btype body; m_name := mem_name name (nf + k) |} :: prow_members t nf (S k)
  end.
Fixpoint prow_branches (cols : prow) (nf k : nat) : list branch :=
  match cols with
  | [] => []
  | (name, _) :: t => {| br_name := name; br_var := mem_name name (nf + k) |} :: prow_branches t nf (S k)
  end.

(* the block of a row: what prog_row puts in the event block *)
Definition row_block (bk : backend) (r : row) (n : nat) : block :=
  let nf := n + row_size r in
  let '(ds, ss) := trow (b_idiom bk) r nf 0 (nt_first nf r) n in
  Blk ds (app_stmts ss (app_stmts (trow_sets (b_idiom bk) r nf 0 n)
                                   (SCons (SFill (b_fill bk)) (trow_clears r nf 0)))).
Definition row_branches (r : row) (nf : nat) : list branch :=
  map (fun m => {| br_name := fst (fst m); br_var := m_name (snd m) |}) (combine r (row_members r nf 0)).

Definition many_inner (fill : string) (iv : string) (arrow : bool) (cols : prow) (nf m : nat) : stmts :=
  app_stmts (prow_pre iv arrow cols m) (app_stmts (prow_sets iv arrow cols nf 0 m) (one_stmt (SFill fill))).
Definition many_nf (ps : guard) (cols : prow) (n : nat) : nat := n + 2 + gsize ps + prow_nifs cols.
Definition many_loop_stmt (bk : backend) (cr : collref) (ps : guard) (cols : prow) (n : nat) : stmt :=
  SFor (iv_name n) (CDeref (CVar (vcv_name cr n)))
       (loop_block (iv_name n) (c_arrow cr) ps n (prow_ds cols (n + gsize ps))
                   (many_inner (b_fill bk) (iv_name n) (c_arrow cr) cols (many_nf ps cols n) (n + gsize ps))).
Definition many_block (bk : backend) (cr : collref) (ps : guard) (cols : prow) (n : nat) : block :=
  Blk [{| d_type := c_ctype cr; d_name := vcv_name cr n; d_init := None |}]
      (SCons (SFetch (b_idiom bk) (vcv_name cr n) (c_ctype cr) (c_bank cr) (fetch_lines (b_idiom bk) (c_ctype cr) (c_bank cr)))
             (one_stmt (many_loop_stmt bk cr ps cols n))).

Definition body_block (bk : backend) (b : qbody) (n : nat) : block :=
  match b with QRow r => row_block bk r n | QMany cr ps cols => many_block bk cr ps cols n end.
Definition body_members (b : qbody) (n : nat) : list member :=
  match b with QRow r => row_members r (n + row_size r) 0 | QMany _ g cols => prow_members cols (many_nf g cols n) 0 end.
Definition body_branches (b : qbody) (n : nat) : list branch :=
  match b with QRow r => row_branches r (n + row_size r) | QMany _ g cols => prow_branches cols (many_nf g cols n) 0 end.

(* first index of the body: after the names of the filter condition *)
Definition body_start (q : query) (n0 : nat) : nat :=
  match q_filter q with None => n0 | Some c => n0 + ex_size c end.

Definition prog_q (bk : backend) (q : query) (n0 : nat) : program :=
  let n1 := body_start q n0 in
  {| p_members := body_members (q_body q) n1;
     p_tree := b_tree bk;
     p_branches := body_branches (q_body q) n1;
     p_book_extra := [];
     p_body := match q_filter q with
               | None => body_block bk (q_body q) n1
               | Some c => let '(ds, ss, cc, _) := te (b_idiom bk) c n0 in
                           Blk ds (app_stmts ss (one_stmt (SIf cc (body_block bk (q_body q) n1) None)))
               end |}.

(* ---------- reference semantics ---------- *)
(* as the code does: the conditionals of all columns first, then the columns' values *)
Fixpoint dprow_conds (ev : event) (v : value) (cols : prow) : res (list value) :=
  match cols with
  | [] => ROk []
  | (_, body) :: t => rdo l1 <- dconds ev v body; rdo l2 <- dprow_conds ev v t; ROk (l1 ++ l2)
  end.
Fixpoint dprow_vals (ev : event) (v : value) (cols : prow) (rs : list value) : res (list value) :=
  match cols with
  | [] => ROk []
  | (_, body) :: t => rdo x <- dbx ev v body (firstn (nifs body) rs);
                      rdo xs <- dprow_vals ev v t (skipn (nifs body) rs); ROk (conv (btype body) x :: xs)
  end.
Definition dprow (ev : event) (v : value) (cols : prow) : res (list value) :=
  rdo rs <- dprow_conds ev v cols; dprow_vals ev v cols rs.
(* SelectMany: the passing elements, in order, each giving one row *)
Fixpoint many_loop (ev : event) (cols : prow) (ps : guard) (l : list value) : res (list (list value)) :=
  match l with
  | [] => ROk []
  | v :: r => rdo b <- gpasses ev v ps;
              if b then rdo row <- dprow ev v cols; rdo rest <- many_loop ev cols ps r; ROk (row :: rest)
              else many_loop ev cols ps r
  end.
Definition dbody (ev : event) (b : qbody) : res (list (list value)) :=
  match b with
  | QRow r => rdo vs <- drow ev r; ROk [vs]
  | QMany cr ps cols =>
      match assoc_ss (c_ctype cr, c_bank cr) (ev_colls ev) with
      | None => RFault FRetrieve
      | Some (VVec l) => many_loop ev cols ps l
      | Some VNull => RFault FNullDeref
      | Some _ => RStuck (KType "the bank does not hold a collection")
      end
  end.
Definition dquery (ev : event) (q : query) : res (list (list value)) :=
  match q_filter q with
  | None => dbody ev (q_body q)
  | Some c => rdo v <- dex ev c; rdo b <- truth v; if b then dbody ev (q_body q) else ROk []
  end.

(* a job: the rows of the events in order; the first undefined event aborts it *)
Fixpoint djob_from (q : query) (evs : list event) (n : nat) (acc : list (list (list value))) : job_result :=
  match evs with
  | [] => JDone acc
  | ev :: r => match dquery ev q with
               | ROk rws => djob_from q r (S n) (acc ++ [rws])
               | RFault f => JAbort acc n f
               | RStuck k => JStuck n k
               end
  end.
Definition djob (q : query) (evs : list event) : job_result := djob_from q evs 0 [].

(* ================================================================================================ *)
(* CMS miniAOD: the same programs with token-based retrieval                                         *)
(* ================================================================================================ *)
(* The miniAOD backend allocates one token name per collection use before anything else is named (so all other
   names start after the tokens), declares the tokens as class members, initialises them in the booking code and
   retrieves through them.  The per-event code is otherwise the CMS one.  Modelled as a pass over the CMS program:
   the k-th retrieval (in program order) reads through token (t0 + k). *)
Definition tok_name (i : nat) : string := nm "token" i.
Definition handle_inner (ctype : string) : string := drop_last (substring 7 (String.length ctype - 7) ctype).   (* Handle<T> -> T *)
Definition token_type (ctype : string) : string := "edm::EDGetTokenT<" +++ handle_inner ctype +++ ">".
Definition mini_lines (ctype tok : string) : list string :=
  [ctype +++ " result;"; "iEvent.getByToken(" +++ tok +++ ", result);"].

Fixpoint tk_stmt (s : stmt) (t : nat) {struct s} : stmt * nat :=
  match s with
  | SFetch _ target ct bank _ => (SFetch "cms_miniaod" target ct bank (mini_lines ct (tok_name t)), S t)
  | SFor x e b => let '(b', t') := tk_block b t in (SFor x e b', t')
  | SIf c b None => let '(b', t') := tk_block b t in (SIf c b' None, t')
  | SIf c b (Some b2) => let '(b', t1) := tk_block b t in let '(b2', t2) := tk_block b2 t1 in (SIf c b' (Some b2'), t2)
  | SBlk b => let '(b', t') := tk_block b t in (SBlk b', t')
  | _ => (s, t)
  end
with tk_block (b : block) (t : nat) {struct b} : block * nat :=
  match b with Blk ds body => let '(body', t') := tk_stmts body t in (Blk ds body', t') end
with tk_stmts (l : stmts) (t : nat) {struct l} : stmts * nat :=
  match l with
  | SNil => (SNil, t)
  | SCons s r => let '(s', t1) := tk_stmt s t in let '(r', t2) := tk_stmts r t1 in (SCons s' r', t2)
  end.

(* the retrievals of a program, in program order: (container type, bank) *)
Fixpoint fetches_stmt (s : stmt) : list (string * string) :=
  match s with
  | SFetch _ _ ct bank _ => [(ct, bank)]
  | SFor _ _ b => fetches_block b
  | SIf _ b None => fetches_block b
  | SIf _ b (Some b2) => fetches_block b ++ fetches_block b2
  | SBlk b => fetches_block b
  | _ => []
  end
with fetches_block (b : block) : list (string * string) :=
  match b with Blk _ body => fetches_stmts body end
with fetches_stmts (l : stmts) : list (string * string) :=
  match l with SNil => [] | SCons s r => fetches_stmt s ++ fetches_stmts r end.

Fixpoint token_members (fs : list (string * string)) (t : nat) : list member :=
  match fs with
  | [] => []
  | (ct, _) :: r => {| m_type := token_type ct; m_name := tok_name t |} :: token_members r (S t)
  end.
Fixpoint token_inits (fs : list (string * string)) (t : nat) : list string :=
  match fs with
  | [] => []
  | (ct, bank) :: r =>
      (tok_name t +++ " = consumes<" +++ handle_inner ct +++ ">(edm::InputTag(""" +++ bank +++ """));") :: token_inits r (S t)
  end.

(* the miniAOD program of a query: names start after the tokens *)
Definition prog_q_mini (bk : backend) (q : query) (n0 : nat) : program :=
  let nt := List.length (fetches_block (p_body (prog_q bk q n0))) in
  let p := prog_q bk q (n0 + nt) in
  let fs := fetches_block (p_body p) in
  {| p_members := token_members fs n0 ++ p_members p;
     p_tree := p_tree p;
     p_branches := p_branches p;
     p_book_extra := token_inits fs n0;
     p_body := fst (tk_block (p_body p) n0) |}.
Definition prog_for (bk : backend) (q : query) (n0 : nat) : program :=
  if String.eqb (b_idiom bk) "cms_miniaod" then prog_q_mini bk q n0 else prog_q bk q n0.

(* ---------- wire format ---------- *)
Definition d_pcol (s : sexp) : option (string * bexp) :=
  match s with
  | SList [SAtom name; b] => option_map (fun b' => (name, b')) (d_bexp b)
  | _ => None
  end.
Definition d_collref (s : sexp) : option collref :=
  match s with
  | SList [SAtom base; SAtom ct; SAtom bank; ar] =>
      option_map (fun ar' => {| c_base := base; c_ctype := ct; c_bank := bank; c_arrow := ar' |}) (d_bool ar)
  | _ => None
  end.
Definition d_qbody (s : sexp) : option qbody :=
  match s with
  | SList [SAtom "row"; SList cols] => option_map QRow (d_list d_col cols)
  | SList [SAtom "many"; cr; SList ps; SList cols] =>
      match d_collref cr, d_guard ps, d_list d_pcol cols with
      | Some cr', Some ps', Some cols' => Some (QMany cr' ps' cols')
      | _, _, _ => None
      end
  | _ => None
  end.
Definition d_query (s : sexp) : option query :=
  match s with
  | SList [SList []; b] => option_map (fun b' => {| q_filter := None; q_body := b' |}) (d_qbody b)
  | SList [SList [c]; b] =>
      match d_ex c, d_qbody b with
      | Some c', Some b' => Some {| q_filter := Some c'; q_body := b' |}
      | _, _ => None
      end
  | _ => None
  end.

(* c01.fragq: (idiom, tree, fill line, query, first index) -> printed query code, class declaration, branches *)
Definition run_fragq (s : sexp) : sexp :=
  match s with
  | SList [SAtom idiom; SAtom tree; SAtom fill; q; n0] =>
      match d_query q, d_nat n0 with
      | Some q', Some n =>
          let p := prog_for {| b_idiom := idiom; b_tree := tree; b_fill := fill |} q' n in
          s_tag "ok" [s_strs (print_block (p_body p)); s_strs (print_members (p_members p));
                      s_strs (map (fun b => br_name b +++ "=" +++ br_var b) (p_branches p)); s_strs (p_book_extra p)]
      | _, _ => bad_input
      end
  | _ => bad_input
  end.
(* c01.denote_q: (query, event) -> the rows the query denotes on the event *)
Definition run_denote_q (s : sexp) : sexp :=
  match s with
  | SList [q; evs] =>
      match d_query q, d_event evs with
      | Some q', Some ev =>
          match dquery ev q' with
          | ROk rws => s_tag "ok" [s_rows rws]
          | RFault f => s_tag "fault" [s_fault f]
          | RStuck k => s_tag "stuck" [s_stuck k]
          end
      | _, _ => bad_input
      end
  | _ => bad_input
  end.

