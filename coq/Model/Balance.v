(* C02 - bracket structure of a rendered C++ file: the brackets ( ) [ ] { } that stand outside comments, string literals and
   character literals nest properly.  A scanner (one character at a time) extracts the brackets; a stack decides nesting.
   Proofs/BalanceProofs.v: the stack check accepts exactly the words of the bracket grammar  D ::= empty | open_k D close_k D. *)
From FV Require Import Base.Prelude.

Inductive br := BOpen (k : nat) | BClose (k : nat).   (* k: 0 round, 1 square, 2 curly *)

(* ---------- nesting ---------- *)
Fixpoint bal (stk : list nat) (l : list br) : bool :=
  match l with
  | [] => match stk with [] => true | _ => false end
  | BOpen k :: r => bal (k :: stk) r
  | BClose k :: r => match stk with k' :: stk' => Nat.eqb k k' && bal stk' r | [] => false end
  end.
Definition balanced (l : list br) : bool := bal [] l.

Inductive D : list br -> Prop :=
| D0 : D []
| D1 : forall k a b, D a -> D b -> D (BOpen k :: a ++ BClose k :: b).

(* ---------- scanner ---------- *)
Inductive sc :=
| Code (prev_word : bool)      (* prev_word: the previous character was a letter, digit or _ (1'000 is a number, not a literal) *)
| Slash (prev_word : bool)     (* a '/' that may start a comment *)
| LineC | BlockC | BlockStar
| Str | StrEsc | Chr | ChrEsc.

Definition c_ (n : nat) : ascii := ascii_of_nat n.
Definition is_word (c : ascii) : bool :=
  let n := nat_of_ascii c in
  (((48 <=? n) && (n <=? 57)) || ((65 <=? n) && (n <=? 90)) || ((97 <=? n) && (n <=? 122)) || (n =? 95)%nat)%nat.
Definition bracket_of (c : ascii) : option br :=
  let n := nat_of_ascii c in
  if (n =? 40)%nat then Some (BOpen 0) else if (n =? 41)%nat then Some (BClose 0)
  else if (n =? 91)%nat then Some (BOpen 1) else if (n =? 93)%nat then Some (BClose 1)
  else if (n =? 123)%nat then Some (BOpen 2) else if (n =? 125)%nat then Some (BClose 2) else None.
Definition consb (b : option br) (r : option (list br)) : option (list br) :=
  match r with None => None | Some l => Some (match b with Some x => x :: l | None => l end) end.

(* None: a comment or a literal that is not closed (a string literal must close on its line) *)
Fixpoint scan (st : sc) (s : string) : option (list br) :=
  match s with
  | EmptyString => match st with Code _ | Slash _ | LineC => Some [] | _ => None end
  | String c r =>
      let n := nat_of_ascii c in
      match st with
      | Code pw =>
          if (n =? 47)%nat then scan (Slash pw) r
          else if (n =? 34)%nat then scan Str r
          else if (n =? 39)%nat && negb pw then scan Chr r
          else consb (bracket_of c) (scan (Code (is_word c)) r)
      | Slash pw =>
          if (n =? 47)%nat then scan LineC r
          else if (n =? 42)%nat then scan BlockC r
          else if (n =? 34)%nat then scan Str r
          else if (n =? 39)%nat then scan Chr r
          else consb (bracket_of c) (scan (Code (is_word c)) r)
      | LineC => if (n =? 10)%nat then scan (Code false) r else scan LineC r
      | BlockC => if (n =? 42)%nat then scan BlockStar r else scan BlockC r
      | BlockStar => if (n =? 47)%nat then scan (Code false) r else if (n =? 42)%nat then scan BlockStar r else scan BlockC r
      | Str => if (n =? 92)%nat then scan StrEsc r else if (n =? 34)%nat then scan (Code false) r else if (n =? 10)%nat then None else scan Str r
      | StrEsc => scan Str r
      | Chr => if (n =? 92)%nat then scan ChrEsc r else if (n =? 39)%nat then scan (Code false) r else if (n =? 10)%nat then None else scan Chr r
      | ChrEsc => scan Chr r
      end
  end.

Definition text_balanced (s : string) : option bool := option_map balanced (scan (Code false) s).

(* c02.balance: text -> ok true | ok false | unclosed *)
Definition run_balance (a : sexp) : sexp :=
  match a with
  | SAtom s => match text_balanced s with
               | Some true => s_tag "ok" [SAtom "true"]
               | Some false => s_tag "ok" [SAtom "false"]
               | None => s_tag "unclosed" []
               end
  | _ => bad_input
  end.
