(* A compositional translator for the "counting" fragment of the query language, written so that it emits
   EXACTLY the text the implementation emits for these queries (checked on every run by the
   correspondence of C01), together with the reference (streaming LINQ) semantics of the fragment.

   Fragment F0 (one output column per event):
       query  ::=  ds.Select(lambda e: ex)
       ex     ::=  z | ex op ex (op one of + - times) | e.<Coll>("bank")[.Where(lambda x: pred)]*.Count()
       pred   ::=  pa cmp pa   (cmp one of < <= > >= == !=)
       pa     ::=  z | d | x.<method>() | pa op pa
   The translator mirrors, for these shapes, ast_to_cpp_translator.py: cpp_ast.process_ast_node on the
   collection call (result variable declared in the current block, retrieval block), as_sequence /
   make_sequence_from_collection (loop over the dereferenced container, fresh i_obj), call_Where (an if per
   predicate, nested), the Count shortcut = Aggregate(0, acc + 1) (visit_call_Aggregate_initial:
   accumulator declared in the block enclosing the loop with initialiser (0), update at the innermost scope),
   visit_BinOp / visit_Compare / visit_Call_Member text, call_ResultTTree (column member, set, Fill).
   Name indices follow the order of the implementation's unique_name calls.
   Executable definitions only; no proofs here. *)
From FV Require Import Base.Prelude Cpp.IR Cpp.Exec Model.Lowering.
From Coq Require Import QArith.
Close Scope Q_scope.

Record collref := {
  c_base : string;      (* lower-cased collection name: the base of the container variable *)
  c_ctype : string;     (* container type text as declared *)
  c_bank : string;
  c_arrow : bool        (* elements are pointers: x->m() ; else x.m() *)
}.

Inductive pa :=
| PInt (z : Z)
| PDbl (text : string) (n : Z) (d : positive)
| PMeth (m : string)
| PBin (op : string) (a b : pa)
| PDiv (a b : pa)                      (* a / b : Python's true division *)
| PNeg (a : pa)                        (* -a *)
| PFun (f : string) (a : pa).          (* one-argument math function, f the C++ name (std::sqrt ...) *)
(* a comparison, possibly negated: not (l op r) *)
Record pred := { p_neg : bool; p_op : string; p_l : pa; p_r : pa }.
(* the filter between a collection and what consumes its elements:
     GNone                no Where
     GOne p               Where(p): everything downstream sits in `if (p)`
     GBool and? p ps      Where(p and p1 and .. ) / Where(p or p1 or ..), also Where(p).Where(p1).. which func_adl fuses into
                          `and`: visit_BoolOp's lowering - a bool variable declared in the loop block, assigned the first
                          operand, each further operand assigned inside an `if (v)` (and) / `if (!v)` (or), then `if (v)`
                          around what follows *)
Inductive guard := GNone | GOne (p : pred) | GBool (is_and : bool) (p : pred) (ps : list pred).
Definition gsize (g : guard) : nat := match g with GBool _ _ _ => 1 | _ => 0 end.
(* the value computed from one element: arithmetic, conditional expressions `a if c else b` (test a comparison, arms
   arithmetic), and + - * of those.  visit_IfExp lowers a conditional to a double variable declared in the block that
   consumes the element, assigned in the two arms of an if/else that precedes the statement using the value. *)
Inductive bexp :=
| BPa (a : pa)
| BIf (c : pred) (a b : pa)
| BBin (op : string) (x y : bexp).
(* the terminal over the filtered collection: Count(), or Select(lambda x: body).Aggregate(seed, lambda a, v: a OP v)
   with OP one of + - * and seed an int or floating literal; Sum() is Aggregate(0, lambda a, v: a + v) *)
Inductive seed := SdInt (z : Z) | SdDbl (text : string) (n : Z) (d : positive).
Inductive aggk := ACount | AAgg (sd : seed) (op : string) (body : bexp).
Definition ASum (body : bexp) : aggk := AAgg (SdInt 0) "+" body.
Definition seed_type (s : seed) : string := match s with SdInt _ => "int" | SdDbl _ _ _ => "double" end.
Definition seed_exp (s : seed) : cexp := match s with SdInt z => CInt z | SdDbl t n d => CDbl t n d end.
Record cnt := { k_coll : collref; k_guard : guard; k_agg : aggk }.

(* static type of a predicate-level arithmetic expression: methods without declaration are double *)
Fixpoint pa_type (a : pa) : string :=
  match a with
  | PInt _ => "int"
  | PDbl _ _ _ | PMeth _ => "double"
  | PBin _ x y => if String.eqb (pa_type x) "int" && String.eqb (pa_type y) "int" then "int" else "double"
  | PDiv _ _ | PFun _ _ => "double"
  | PNeg x => pa_type x
  end.
(* visit_BinOp for `/`: the left operand is cast to double unless an operand already is one (then the usual
   arithmetic conversions of C++ make the division a floating one) *)
Definition div_needs_cast (x y : pa) : bool := negb (String.eqb (pa_type x) "double" || String.eqb (pa_type y) "double").
Fixpoint btype (e : bexp) : string :=
  match e with
  | BPa a => pa_type a
  | BIf _ _ _ => "double"
  | BBin _ x y => if String.eqb (btype x) "int" && String.eqb (btype y) "int" then "int" else "double"
  end.
Fixpoint nifs (e : bexp) : nat := match e with BPa _ => 0 | BIf _ _ _ => 1 | BBin _ x y => nifs x + nifs y end.
(* accumulator type: int for Count; else the wider of the seed's type and the summand's (most_accurate_type) *)
Definition aggk_type (g : aggk) : string :=
  match g with
  | ACount => "int"
  | AAgg sd _ body => if String.eqb (seed_type sd) "int" && String.eqb (btype body) "int" then "int" else "double"
  end.
Definition agg_type (k : cnt) : string := aggk_type (k_agg k).
Definition agg_nifs (g : aggk) : nat := match g with ACount => 0 | AAgg _ _ body => nifs body end.
Definition agg_op (g : aggk) : string := match g with ACount => "+" | AAgg _ op _ => op end.
Definition agg_init (g : aggk) : cexp := match g with ACount => CInt 0 | AAgg sd _ _ => seed_exp sd end.
(* event-level operators: + - * and the six comparisons *)
Inductive bop := OAdd | OSub | OMul | OLt | OLe | OGt | OGe | OEq | ONe.
Definition op_str (o : bop) : string :=
  match o with
  | OAdd => "+" | OSub => "-" | OMul => "*" | OLt => "<" | OLe => "<=" | OGt => ">" | OGe => ">=" | OEq => "==" | ONe => "!="
  end.
Definition bop_is_cmp (o : bop) : bool :=
  match o with OAdd | OSub | OMul => false | _ => true end.
Definition bop_of (s : string) : option bop :=
  if String.eqb s "+" then Some OAdd else if String.eqb s "-" then Some OSub else if String.eqb s "*" then Some OMul
  else if String.eqb s "<" then Some OLt else if String.eqb s "<=" then Some OLe else if String.eqb s ">" then Some OGt
  else if String.eqb s ">=" then Some OGe else if String.eqb s "==" then Some OEq else if String.eqb s "!=" then Some ONe
  else None.

Inductive ex :=
| EInt (z : Z)
| ECount (k : cnt)
| EBin (o : bop) (a b : ex)
| EIdx (c : collref) (i : nat) (m : string)     (* e.Coll("bank")[i].m() : bounds-checked at(i) on the fetched collection *)
| EDbl (text : string) (n : Z) (d : positive)   (* floating literal *)
| EDiv (a b : ex)                               (* a / b : Python's true division *)
| ENeg (a : ex)                                 (* -a *)
| EFun (f : string) (a : ex)                    (* one-argument math function, f the C++ name *)
| EBool (is_and : bool) (a b : ex)              (* a and b / a or b : the second operand's code sits in `if (v)` / `if (!v)` *)
| EIf (c a b : ex).                             (* a if c else b : each arm's code sits in its own branch of if / else *)

Definition nm (base : string) (n : nat) : string := base +++ dec_nat n.

Record backend := {
  b_idiom : string;          (* "atlas" | "cms_aod" *)
  b_tree : string;           (* <prefix>_tree *)
  b_fill : string            (* the Fill line *)
}.

Definition fetch_lines (idiom ctype bank : string) : list string :=
  if String.eqb idiom "atlas"
  then [ctype +++ " result = 0;"; "ANA_CHECK (evtStore()->retrieve(result, """ +++ bank +++ """));"]
  else [ctype +++ " result;"; "iEvent.getByLabel(""" +++ bank +++ """, result);"].

(* ---------- translation ---------- *)
Fixpoint tpa (iv : string) (arrow : bool) (a : pa) : cexp :=
  match a with
  | PInt z => CInt z
  | PDbl t n d => CDbl t n d
  | PMeth m => CMeth (CVar iv) arrow m CNil
  | PBin op x y => CBin op (tpa iv arrow x) (tpa iv arrow y)
  | PDiv x y => CBin "/" (if div_needs_cast x y then CCast "double" (tpa iv arrow x) else tpa iv arrow x) (tpa iv arrow y)
  | PNeg x => CUn "-" (tpa iv arrow x)
  | PFun f x => CCall f (CCons (tpa iv arrow x) CNil)
  end.
Definition tpred (iv : string) (arrow : bool) (p : pred) : cexp :=
  let c := CBin (p_op p) (tpa iv arrow (p_l p)) (tpa iv arrow (p_r p)) in
  if p_neg p then CUn "!" c else c.

Definition bo_name (n : nat) : string := nm "bool_op" (S (S n)).
(* the block of a loop over a guarded collection: `ds` / `inner` are the declarations and statements of what consumes an
   element; they sit in the loop block itself when there is no Where, else in the block of the last `if` *)
Definition loop_block (iv : string) (arrow : bool) (g : guard) (n : nat) (ds : list decl) (inner : stmts) : block :=
  match g with
  | GNone => Blk ds inner
  | GOne p => Blk [] (one_stmt (SIf (tpred iv arrow p) (Blk ds inner) None))
  | GBool is_and p ps =>
      Blk [bo_decl (bo_name n)]
          (app_stmts (bo_lower is_and (bo_name n) SNil (tpred iv arrow p)
                               (map (fun q => bo_operand (bo_name n) [] SNil (tpred iv arrow q)) ps))
                     (one_stmt (SIf (CVar (bo_name n)) (Blk ds inner) None)))
  end.

(* conditionals of a body: names, declarations, the if/else statements, and the expression that reads them;
   the k-th conditional (left to right) is variable if_else_result(m+k) *)
Definition if_name (m : nat) : string := nm "if_else_result" (S (S m)).
Definition arm_set (r : string) (iv : string) (arrow : bool) (a : pa) : stmt :=
  SSet r (if String.eqb (pa_type a) "double" then None else Some "double") (tpa iv arrow a).
Fixpoint bdecls (e : bexp) (m : nat) : list decl :=
  match e with
  | BPa _ => []
  | BIf _ _ _ => [{| d_type := "double"; d_name := if_name m; d_init := None |}]
  | BBin _ x y => bdecls x m ++ bdecls y (m + nifs x)
  end.
Fixpoint bpre (iv : string) (arrow : bool) (e : bexp) (m : nat) : stmts :=
  match e with
  | BPa _ => SNil
  | BIf c a b => one_stmt (SIf (tpred iv arrow c) (Blk [] (one_stmt (arm_set (if_name m) iv arrow a)))
                                (Some (Blk [] (one_stmt (arm_set (if_name m) iv arrow b)))))
  | BBin _ x y => app_stmts (bpre iv arrow x m) (bpre iv arrow y (m + nifs x))
  end.
Fixpoint bx (iv : string) (arrow : bool) (e : bexp) (m : nat) : cexp :=
  match e with
  | BPa a => tpa iv arrow a
  | BIf _ _ _ => CVar (if_name m)
  | BBin op x y => CBin op (bx iv arrow x m) (bx iv arrow y (m + nifs x))
  end.

Definition cv_name (k : cnt) (n : nat) : string := nm (c_base (k_coll k)) n.
Definition iv_name (n : nat) : string := nm "i_obj" (S n).
Definition agg_name (n : nat) : string := nm "aggResult" (S (S n)).   (* used at n + gsize of the guard *)
Definition kagg (k : cnt) (n : nat) : string := agg_name (n + gsize (k_guard k) + agg_nifs (k_agg k)).

Definition agg_summand (iv : string) (arrow : bool) (g : aggk) (m : nat) : cexp :=
  match g with ACount => CInt 1 | AAgg _ _ body => bx iv arrow body m end.
Definition agg_ds (g : aggk) (m : nat) : list decl := match g with ACount => [] | AAgg _ _ body => bdecls body m end.
Definition agg_pre (iv : string) (arrow : bool) (g : aggk) (m : nat) : stmts :=
  match g with ACount => SNil | AAgg _ _ body => bpre iv arrow body m end.
Definition agg_update (agg : string) (op : string) (summand : cexp) : stmt := SSet agg None (CBin op (CVar agg) summand).

Definition tcount_decls (k : cnt) (n : nat) : list decl :=
  [{| d_type := c_ctype (k_coll k); d_name := cv_name k n; d_init := None |};
   {| d_type := agg_type k; d_name := kagg k n; d_init := Some (agg_init (k_agg k)) |}].
Definition tcount_loop (k : cnt) (n : nat) : stmt :=
  SFor (iv_name n) (CDeref (CVar (cv_name k n)))
       (loop_block (iv_name n) (c_arrow (k_coll k)) (k_guard k) n (agg_ds (k_agg k) (n + gsize (k_guard k)))
                   (app_stmts (agg_pre (iv_name n) (c_arrow (k_coll k)) (k_agg k) (n + gsize (k_guard k)))
                              (one_stmt (agg_update (kagg k n) (agg_op (k_agg k)) (agg_summand (iv_name n) (c_arrow (k_coll k)) (k_agg k) (n + gsize (k_guard k))))))).
Definition tcount_stmts (idiom : string) (k : cnt) (n : nat) : stmts :=
  SCons (SFetch idiom (cv_name k n) (c_ctype (k_coll k)) (c_bank (k_coll k))
                (fetch_lines idiom (c_ctype (k_coll k)) (c_bank (k_coll k))))
        (one_stmt (tcount_loop k n)).

(* the type the translator assigns (most_accurate_type over int/double; comparisons are bool) *)
Fixpoint ex_type (e : ex) : string :=
  match e with
  | EInt _ => "int"
  | ECount k => agg_type k
  | EBin o a b => if bop_is_cmp o then "bool"
                   else if String.eqb (ex_type a) "int" && String.eqb (ex_type b) "int" then "int" else "double"
  | EIdx _ _ _ | EDbl _ _ _ | EDiv _ _ | EFun _ _ => "double"
  | ENeg a => ex_type a
  | EBool _ _ _ => "bool"
  | EIf _ _ _ => "double"
  end.
(* visit_BinOp for `/` at event level: the same rule as inside a lambda (div_needs_cast) *)
Definition ex_div_needs_cast (a b : ex) : bool := negb (String.eqb (ex_type a) "double" || String.eqb (ex_type b) "double").


(* declarations for the current block, statements for the current block, value expression, next index *)
Fixpoint te (idiom : string) (e : ex) (n : nat) : list decl * stmts * cexp * nat :=
  match e with
  | EInt z => ([], SNil, CInt z, n)
  | ECount k => (tcount_decls k n, tcount_stmts idiom k n, CVar (kagg k n), S (S (S n)) + gsize (k_guard k) + agg_nifs (k_agg k))
  | EBin o a b =>
      let '(da, sa, ca, n1) := te idiom a n in
      let '(db, sb, cb, n2) := te idiom b n1 in
      (da ++ db, app_stmts sa sb, CBin (op_str o) ca cb, n2)
  | EIdx c i m =>
      ([{| d_type := c_ctype c; d_name := nm (c_base c) n; d_init := None |}],
       one_stmt (SFetch idiom (nm (c_base c) n) (c_ctype c) (c_bank c) (fetch_lines idiom (c_ctype c) (c_bank c))),
       CMeth (CMeth (CVar (nm (c_base c) n)) true "at" (CCons (CInt (Z.of_nat i)) CNil)) (c_arrow c) m CNil,
       S n)
  | EDbl t z d => ([], SNil, CDbl t z d, n)
  | EDiv a b =>
      let '(da, sa, ca, n1) := te idiom a n in
      let '(db, sb, cb, n2) := te idiom b n1 in
      (da ++ db, app_stmts sa sb, CBin "/" (if ex_div_needs_cast a b then CCast "double" ca else ca) cb, n2)
  | ENeg a => let '(da, sa, ca, n1) := te idiom a n in (da, sa, CUn "-" ca, n1)
  | EFun f a => let '(da, sa, ca, n1) := te idiom a n in (da, sa, CCall f (CCons ca CNil), n1)
  | EBool is_and a b =>
      (* visit_BoolOp: the result variable is named first and declared in the current block; the first operand's code
         follows in the current block; the second operand's declarations and code are inside the if block *)
      let v := nm "bool_op" n in
      let '(da, sa, ca, n1) := te idiom a (S n) in
      let '(db, sb, cb, n2) := te idiom b n1 in
      (bo_decl v :: da,
       bo_lower is_and v sa ca [bo_operand v db sb cb],
       CVar v, n2)
  | EIf c a b =>
      (* visit_IfExp: a double result variable named first and declared in the current block; the test's code in the current
         block; each arm's declarations, code and assignment (cast to double unless the arm is one) in its own branch *)
      let v := nm "if_else_result" n in
      let '(dc, sc, cc, n1) := te idiom c (S n) in
      let '(da, sa, ca, n2) := te idiom a n1 in
      let '(db, sb, cb, n3) := te idiom b n2 in
      (ie_decl v :: dc,
       snoc_stmts sc (SIf cc (Blk da (snoc_stmts sa (SSet v (if String.eqb (ex_type a) "double" then None else Some "double") ca)))
                           (Some (Blk db (snoc_stmts sb (SSet v (if String.eqb (ex_type b) "double" then None else Some "double") cb))))),
       CVar v, n3)
  end.

Definition col_name (n : nat) : string := nm "_col1" n.   (* = mem_name "col1" n (cident "col1" = "col1") *)

Definition prog (bk : backend) (e : ex) (n0 : nat) : program :=
  let '(ds, ss, c, n) := te (b_idiom bk) e n0 in
  {| p_members := [{| m_type := ex_type e; m_name := col_name n |}];
     p_tree := b_tree bk;
     p_branches := [{| br_name := "col1"; br_var := col_name n |}];
     p_book_extra := [];
     p_body := Blk ds (app_stmts ss (SCons (SSet (col_name n) None c) (one_stmt (SFill (b_fill bk))))) |}.

(* ---------- rows: several columns, scalar or vector ---------- *)
Inductive column :=
| ColScalar (e : ex)                                           (* an event-level value *)
| ColVec (c : collref) (g : guard) (body : bexp)               (* e.Coll("bank")[.Where(p)].Select(lambda x: body) *)
| ColFirst (c : collref) (g : guard) (body : pa) (line : string)
    (* e.Coll("bank")[.Where(p)].Select(lambda x: body).First()  (or ....First().m()): the first passing element's
       value; `line` is the emitted throw statement (its message quotes the query text) *)
| ColVec2 (c1 : collref) (g1 : guard) (c2 : collref) (g2 : guard) (body : bexp)
    (* e.C1("b1")[.Where(p1)].Select(lambda o: e.C2("b2")[.Where(p2)].Select(lambda x: body)): one vector per passing
       element of the first collection (the second collection is retrieved inside the outer loop) *)
| ColFlat (c1 : collref) (g1 : guard) (c2 : collref) (g2 : guard) (body : bexp)
    (* e.C1("b1")[.Where(p1)].SelectMany(lambda o: e.C2("b2")[.Where(p2)]).Select(lambda x: body)  (or with the Select inside
       the SelectMany lambda): ONE vector, the second collection's values once per passing element of the first *)
| ColFirstB (c : collref) (g : guard) (body : bexp) (line : string).
    (* e.Coll("bank")[.Where(p)].Select(lambda x: body).First() with conditional expressions in the body: their variables are
       declared and assigned for EVERY passing element (before the `if (is_first)`), the value is captured on the first *)
Definition row := list (string * column).                      (* branch name, column *)

Fixpoint ex_size (e : ex) : nat :=
  match e with
  | EInt _ | EDbl _ _ _ => 0 | ECount k => 3 + gsize (k_guard k) + agg_nifs (k_agg k)
  | EBin _ a b | EDiv a b => ex_size a + ex_size b | EIdx _ _ _ => 1 | ENeg a | EFun _ a => ex_size a
  | EBool _ a b => S (ex_size a + ex_size b)
  | EIf c a b => S (ex_size c + ex_size a + ex_size b)
  end.
Definition col_size (c : column) : nat :=
  match c with
  | ColScalar e => ex_size e | ColVec _ g body => 2 + gsize g + nifs body | ColFirst _ g _ _ => 3 + gsize g
  | ColVec2 _ g1 _ g2 body | ColFlat _ g1 _ g2 body => 4 + gsize g1 + gsize g2 + nifs body
  | ColFirstB _ g body _ => 3 + gsize g + nifs body
  end.
(* number of 2-D columns: each has one local vector, named after all class members *)
Definition col_nts (c : column) : nat := match c with ColVec2 _ _ _ _ _ => 1 | _ => 0 end.
Fixpoint row_size (r : row) : nat := match r with [] => 0 | (_, c) :: t => col_size c + row_size t end.

Definition vec_type (ty : string) : string := "std::vector<" +++ ty +++ ">".
Definition col_type (c : column) : string :=
  match c with
  | ColScalar e => ex_type e | ColVec _ _ body => vec_type (btype body) | ColFirst _ _ body _ => pa_type body
  | ColVec2 _ _ _ _ body => vec_type (vec_type (btype body))
  | ColFlat _ _ _ _ body => vec_type (btype body)
  | ColFirstB _ _ body _ => btype body
  end.

(* class variable of column k: unique_name(name, is_class_var=True) after all per-event names *)
Definition mem_name (name : string) (idx : nat) : string := nm ("_" +++ cident name) idx.

Definition vcv_name (c : collref) (n : nat) : string := nm (c_base c) n.
Definition tvec_loop (c : collref) (g : guard) (body : bexp) (mem : string) (n : nat) : stmt :=
  SFor (iv_name n) (CDeref (CVar (vcv_name c n)))
       (loop_block (iv_name n) (c_arrow c) g n (bdecls body (n + gsize g))
                   (app_stmts (bpre (iv_name n) (c_arrow c) body (n + gsize g))
                              (one_stmt (SPush mem None (bx (iv_name n) (c_arrow c) body (n + gsize g)))))).

(* call_First: flag declared in the block enclosing the loop, capture under the guards, throw-if after the loop;
   the column member is assigned inside the capture *)
Definition isf_name (n : nat) : string := nm "is_first" (S (S n)).   (* used at n + gsize of the guard *)
Definition tfirst_capture (c : collref) (g : guard) (body : pa) (mem : string) (n : nat) : stmt :=
  fi_capture (isf_name (n + gsize g)) [] (one_stmt (SSet mem None (tpa (iv_name n) (c_arrow c) body))).
Definition tfirst_loop (c : collref) (g : guard) (body : pa) (mem : string) (n : nat) : stmt :=
  SFor (iv_name n) (CDeref (CVar (vcv_name c n)))
       (loop_block (iv_name n) (c_arrow c) g n [] (one_stmt (tfirst_capture c g body mem n))).

(* 2-D: the local vector of one outer element is ntuple<k>; the second collection is retrieved, looped over and the
   local vector pushed onto the column inside the (guarded) block of the outer loop *)
Definition nt_name (k : nat) : string := nm "ntuple" k.
Definition c2_at (n : nat) (g1 : guard) : nat := S (S n) + gsize g1.
Definition tvec2_inner (idiom : string) (c2 : collref) (g2 : guard) (body : bexp) (mem nt : string) (m : nat) : stmts :=
  SCons (SFetch idiom (vcv_name c2 m) (c_ctype c2) (c_bank c2) (fetch_lines idiom (c_ctype c2) (c_bank c2)))
        (SCons (tvec_loop c2 g2 body nt m) (one_stmt (SPush mem None (CVar nt)))).
Definition tvec2_decls (c2 : collref) (body : bexp) (nt : string) (m : nat) : list decl :=
  [{| d_type := c_ctype c2; d_name := vcv_name c2 m; d_init := None |}; {| d_type := vec_type (btype body); d_name := nt; d_init := None |}].
Definition tvec2_loop (idiom : string) (c1 : collref) (g1 : guard) (c2 : collref) (g2 : guard) (body : bexp) (mem nt : string) (n : nat) : stmt :=
  SFor (iv_name n) (CDeref (CVar (vcv_name c1 n)))
       (loop_block (iv_name n) (c_arrow c1) g1 n (tvec2_decls c2 body nt (c2_at n g1))
                   (tvec2_inner idiom c2 g2 body mem nt (c2_at n g1))).

(* flattened: the inner loop pushes onto the column itself *)
Definition tflat_inner (idiom : string) (c2 : collref) (g2 : guard) (body : bexp) (mem : string) (m : nat) : stmts :=
  SCons (SFetch idiom (vcv_name c2 m) (c_ctype c2) (c_bank c2) (fetch_lines idiom (c_ctype c2) (c_bank c2)))
        (one_stmt (tvec_loop c2 g2 body mem m)).
Definition tflat_loop (idiom : string) (c1 : collref) (g1 : guard) (c2 : collref) (g2 : guard) (body : bexp) (mem : string) (n : nat) : stmt :=
  SFor (iv_name n) (CDeref (CVar (vcv_name c1 n)))
       (loop_block (iv_name n) (c_arrow c1) g1 n [{| d_type := c_ctype c2; d_name := vcv_name c2 (c2_at n g1); d_init := None |}]
                   (tflat_inner idiom c2 g2 body mem (c2_at n g1))).

(* First over a body with conditionals: the flag is named after the conditionals' variables *)
Definition isfb_at (n : nat) (g : guard) (body : bexp) : nat := n + gsize g + nifs body.
Definition tfirstb_loop (c : collref) (g : guard) (body : bexp) (mem : string) (n : nat) : stmt :=
  SFor (iv_name n) (CDeref (CVar (vcv_name c n)))
       (loop_block (iv_name n) (c_arrow c) g n (bdecls body (n + gsize g))
                   (app_stmts (bpre (iv_name n) (c_arrow c) body (n + gsize g))
                              (one_stmt (fi_capture (isf_name (isfb_at n g body)) []
                                                    (one_stmt (SSet mem None (bx (iv_name n) (c_arrow c) body (n + gsize g)))))))).

(* code of one column in the event block: declarations, statements, next index; ntk = index of the next local vector *)
Definition tcol (idiom : string) (c : column) (mem : string) (ntk n : nat) : list decl * stmts * nat :=
  match c with
  | ColVec2 c1 g1 c2 g2 body =>
      ([{| d_type := c_ctype c1; d_name := vcv_name c1 n; d_init := None |}],
       SCons (SFetch idiom (vcv_name c1 n) (c_ctype c1) (c_bank c1) (fetch_lines idiom (c_ctype c1) (c_bank c1)))
             (one_stmt (tvec2_loop idiom c1 g1 c2 g2 body mem (nt_name ntk) n)),
       n + (4 + gsize g1 + gsize g2 + nifs body))
  | ColFirstB cr g body line =>
      ([{| d_type := c_ctype cr; d_name := vcv_name cr n; d_init := None |}; fi_decl (isf_name (isfb_at n g body))],
       SCons (SFetch idiom (vcv_name cr n) (c_ctype cr) (c_bank cr) (fetch_lines idiom (c_ctype cr) (c_bank cr)))
             (SCons (tfirstb_loop cr g body mem n) (one_stmt (fi_throw (isf_name (isfb_at n g body)) line))),
       n + (3 + gsize g + nifs body))
  | ColFlat c1 g1 c2 g2 body =>
      ([{| d_type := c_ctype c1; d_name := vcv_name c1 n; d_init := None |}],
       SCons (SFetch idiom (vcv_name c1 n) (c_ctype c1) (c_bank c1) (fetch_lines idiom (c_ctype c1) (c_bank c1)))
             (one_stmt (tflat_loop idiom c1 g1 c2 g2 body mem n)),
       n + (4 + gsize g1 + gsize g2 + nifs body))
  | ColScalar e => let '(ds, ss, _, n') := te idiom e n in (ds, ss, n')
  | ColVec cr g body =>
      ([{| d_type := c_ctype cr; d_name := vcv_name cr n; d_init := None |}],
       SCons (SFetch idiom (vcv_name cr n) (c_ctype cr) (c_bank cr) (fetch_lines idiom (c_ctype cr) (c_bank cr)))
             (one_stmt (tvec_loop cr g body mem n)),
       S (S n) + gsize g + nifs body)
  | ColFirst cr g body line =>
      ([{| d_type := c_ctype cr; d_name := vcv_name cr n; d_init := None |}; fi_decl (isf_name (n + gsize g))],
       SCons (SFetch idiom (vcv_name cr n) (c_ctype cr) (c_bank cr) (fetch_lines idiom (c_ctype cr) (c_bank cr)))
             (SCons (tfirst_loop cr g body mem n) (one_stmt (fi_throw (isf_name (n + gsize g)) line))),
       S (S (S n)) + gsize g)
  end.

(* all columns in order; member k is mem_name name_k (nf + k) *)
Fixpoint trow (idiom : string) (r : row) (nf k ntk n : nat) : list decl * stmts :=
  match r with
  | [] => ([], SNil)
  | (name, c) :: t =>
      let '(ds, ss, n') := tcol idiom c (mem_name name (nf + k)) ntk n in
      let '(dt, st) := trow idiom t nf (S k) (col_nts c + ntk) n' in
      (ds ++ dt, app_stmts ss st)
  end.
(* the first local vector: after the class members and one more name *)
Definition nt_first (nf : nat) (r : row) : nat := S (nf + List.length r).
(* after the loops: the scalar columns are stored, in column order *)
Fixpoint trow_sets (idiom : string) (r : row) (nf k n : nat) : stmts :=
  match r with
  | [] => SNil
  | (name, c) :: t =>
      match c with
      | ColScalar e => let '(_, _, ce, n') := te idiom e n in SCons (SSet (mem_name name (nf + k)) None ce) (trow_sets idiom t nf (S k) n')
      | ColVec _ g body => trow_sets idiom t nf (S k) (S (S n) + gsize g + nifs body)
      | ColFirst _ g _ _ => trow_sets idiom t nf (S k) (S (S (S n)) + gsize g)
      | ColVec2 _ g1 _ g2 body | ColFlat _ g1 _ g2 body => trow_sets idiom t nf (S k) (n + (4 + gsize g1 + gsize g2 + nifs body))
      | ColFirstB _ g body _ => trow_sets idiom t nf (S k) (n + (3 + gsize g + nifs body))
      end
  end.
Fixpoint trow_clears (r : row) (nf k : nat) : stmts :=
  match r with
  | [] => SNil
  | (name, c) :: t =>
      match c with
      | ColScalar _ | ColFirst _ _ _ _ | ColFirstB _ _ _ _ => trow_clears t nf (S k)
      | ColVec _ _ _ | ColVec2 _ _ _ _ _ | ColFlat _ _ _ _ _ => SCons (SClear (mem_name name (nf + k))) (trow_clears t nf (S k))
      end
  end.
Fixpoint row_members (r : row) (nf k : nat) : list member :=
  match r with
  | [] => []
  | (name, c) :: t => {| m_type := col_type c; m_name := mem_name name (nf + k) |} :: row_members t nf (S k)
  end.

Definition prog_row (bk : backend) (r : row) (n0 : nat) : program :=
  let nf := n0 + row_size r in
  let '(ds, ss) := trow (b_idiom bk) r nf 0 (nt_first nf r) n0 in
  {| p_members := row_members r nf 0;
     p_tree := b_tree bk;
     p_branches := map (fun m => {| br_name := fst (fst m); br_var := m_name (snd m) |}) (combine r (row_members r nf 0));
     p_book_extra := [];
     p_body := Blk ds (app_stmts ss (app_stmts (trow_sets (b_idiom bk) r nf 0 n0)
                                               (SCons (SFill (b_fill bk)) (trow_clears r nf 0)))) |}.

(* ---------- reference semantics (streaming LINQ over the same data model and number operations) ---------- *)
Fixpoint dpa (ev : event) (v : value) (a : pa) : res value :=
  match a with
  | PInt z => ROk (VInt z)
  | PDbl _ n d => ROk (VDbl (Qred (n # d)%Q))
  | PMeth m => call_method ev v m []
  | PBin op x y => rdo p <- dpa ev v x; rdo q <- dpa ev v y; arith op p q
  | PDiv x y => rdo p <- dpa ev v x; rdo q <- dpa ev v y; arith "/" (if div_needs_cast x y then conv "double" p else p) q
  | PNeg x => rdo p <- dpa ev v x; unary "-" p
  | PFun f x => rdo p <- dpa ev v x; ROk (VSym f [math_arg p])
  end.
Definition dpredv (ev : event) (v : value) (p : pred) : res value :=
  rdo x <- dpa ev v (p_l p); rdo y <- dpa ev v (p_r p); rdo r <- arith (p_op p) x y;
  if p_neg p then unary "!" r else ROk r.
Definition dpred (ev : event) (v : value) (p : pred) : res bool := rdo r <- dpredv ev v p; truth r.
(* bodies with conditionals.  The emitted code evaluates the conditionals first, left to right (only the taken arm of
   each), then the expression that reads them; the reference does the same, so that which fault an undefined body
   raises is the same too.  `dnat` is the ordinary recursive evaluation: they agree whenever either has a value. *)
Definition dcond (ev : event) (v : value) (c : pred) (a b : pa) : res value :=
  rdo t <- dpred ev v c; rdo x <- (if t then dpa ev v a else dpa ev v b);
  match conv "double" x with
  | VUninit => RStuck (KUninit "conditional")    (* only on ill-typed events: a method "returning" an uninitialised cell *)
  | y => ROk y
  end.
Fixpoint dconds (ev : event) (v : value) (e : bexp) : res (list value) :=
  match e with
  | BPa _ => ROk []
  | BIf c a b => rdo x <- dcond ev v c a b; ROk [x]
  | BBin _ x y => rdo l1 <- dconds ev v x; rdo l2 <- dconds ev v y; ROk (l1 ++ l2)
  end.
Fixpoint dbx (ev : event) (v : value) (e : bexp) (rs : list value) : res value :=
  match e with
  | BPa a => dpa ev v a
  | BIf _ _ _ => match rs with r :: _ => ROk r | [] => RStuck (KType "conditional value") end
  | BBin op x y => rdo p <- dbx ev v x (firstn (nifs x) rs); rdo q <- dbx ev v y (skipn (nifs x) rs); arith op p q
  end.
Definition db (ev : event) (v : value) (e : bexp) : res value := rdo rs <- dconds ev v e; dbx ev v e rs.
Fixpoint dnat (ev : event) (v : value) (e : bexp) : res value :=
  match e with
  | BPa a => dpa ev v a
  | BIf c a b => dcond ev v c a b
  | BBin op x y => rdo p <- dnat ev v x; rdo q <- dnat ev v y; arith op p q
  end.
(* and / or are lazy: operands left to right, the rest is not evaluated once the result is known *)
Fixpoint bo_rest (ev : event) (v : value) (is_and : bool) (b : bool) (ps : list pred) : res bool :=
  match ps with
  | [] => ROk b
  | p :: r => if Bool.eqb b is_and then rdo b' <- dpred ev v p; bo_rest ev v is_and b' r else ROk b
  end.
Definition gpasses (ev : event) (v : value) (g : guard) : res bool :=
  match g with
  | GNone => ROk true
  | GOne p => dpred ev v p
  | GBool is_and p ps => rdo b <- dpred ev v p; bo_rest ev v is_and b ps
  end.
(* one step of the aggregate on a passing element: acc + 1, or acc OP body(v), stored in the accumulator's type *)
Definition seed_val (s : seed) : value := match s with SdInt z => VInt z | SdDbl _ n d => VDbl (Qred (n # d)%Q) end.
Definition agg_seed (g : aggk) : value := match g with ACount => VInt 0 | AAgg sd _ _ => seed_val sd end.
Definition agg_step (ev : event) (ty : string) (g : aggk) (acc v : value) : res value :=
  rdo x <- match g with ACount => ROk (VInt 1) | AAgg _ _ body => db ev v body end;
  rdo s <- arith (agg_op g) acc x;
  ROk (conv ty s).
Fixpoint agg_loop (ev : event) (ty : string) (g : aggk) (ps : guard) (l : list value) (acc : value) : res value :=
  match l with
  | [] => ROk acc
  | v :: r => rdo b <- gpasses ev v ps;
              if b then rdo acc' <- agg_step ev ty g acc v; agg_loop ev ty g ps r acc' else agg_loop ev ty g ps r acc
  end.
Definition dcount (ev : event) (k : cnt) : res value :=
  match assoc_ss (c_ctype (k_coll k), c_bank (k_coll k)) (ev_colls ev) with
  | None => RFault FRetrieve
  | Some (VVec l) => agg_loop ev (agg_type k) (k_agg k) (k_guard k) l (conv (agg_type k) (agg_seed (k_agg k)))
  | Some VNull => RFault FNullDeref
  | Some _ => RStuck (KType "the bank does not hold a collection")
  end.
(* an element by position: undefined (out of range) when the collection is shorter *)
Definition didx (ev : event) (c : collref) (i : nat) (m : string) : res value :=
  match assoc_ss (c_ctype c, c_bank c) (ev_colls ev) with
  | None => RFault FRetrieve
  | Some (VVec l) => match nth_error l i with Some v => call_method ev v m [] | None => RFault FOutOfRange end
  | Some VNull => RFault FNullDeref
  | Some _ => RStuck (KType "the bank does not hold a collection")
  end.
(* a value read back from a variable: an uninitialised cell has none (only on ill-typed events) *)
Definition rdv (v : value) : res value := match v with VUninit => RStuck (KUninit "bool_op") | _ => ROk v end.
Fixpoint de (ev : event) (e : ex) : res value :=
  match e with
  | EInt z => ROk (VInt z)
  | ECount k => dcount ev k
  | EBin o a b => rdo x <- de ev a; rdo y <- de ev b; arith (op_str o) x y
  | EIdx c i m => didx ev c i m
  | EDbl _ n d => ROk (VDbl (Qred (n # d)%Q))
  | EDiv a b => rdo x <- de ev a; rdo y <- de ev b; arith "/" (if ex_div_needs_cast a b then conv "double" x else x) y
  | ENeg a => rdo x <- de ev a; unary "-" x
  | EFun f a => rdo x <- de ev a; ROk (VSym f [math_arg x])
  | EBool is_and a b =>
      (* lazy: the second operand is evaluated only when the first does not decide *)
      rdo x <- de ev a; rdo t <- truth (conv "bool" x);
      if Bool.eqb t is_and then rdo y <- de ev b; rdv (conv "bool" y) else ROk (conv "bool" x)
  | EIf c a b =>
      (* lazy: only the taken arm is evaluated *)
      rdo x <- de ev c; rdo t <- truth x; rdo y <- (if t then de ev a else de ev b); rdv (conv "double" y)
  end.
(* The emitted code works in two phases: first the statements of every sub-expression (retrievals and loops, left to
   right), then the value expression (where at() is evaluated).  `dstm` is what can go wrong in the first phase; `dex` is
   the reference in the same two phases, so that WHICH fault an event raises when several partial operations are
   undefined is the same as in the job.  dex and the ordinary evaluation de agree whenever either has a value
   (FragProofs.dex_natural). *)
Fixpoint dstm (ev : event) (e : ex) : res unit :=
  match e with
  | EInt _ => ROk tt
  | ECount k => rdo _ <- dcount ev k; ROk tt
  | EBin _ a b => rdo _ <- dstm ev a; dstm ev b
  | EIdx c _ _ => match assoc_ss (c_ctype c, c_bank c) (ev_colls ev) with None => RFault FRetrieve | Some _ => ROk tt end
  | EDbl _ _ _ => ROk tt
  | EDiv a b => rdo _ <- dstm ev a; dstm ev b
  | ENeg a | EFun _ a => dstm ev a
  | EBool is_and a b =>
      (* everything about a boolean operation happens in the first phase (its value is then read off the variable):
         the first operand in its two phases, and - only if it does not decide - the second operand in its two phases *)
      rdo _ <- dstm ev a; rdo x <- de ev a; rdo t <- truth (conv "bool" x);
      if Bool.eqb t is_and then rdo _ <- dstm ev b; rdo _ <- de ev b; ROk tt else ROk tt
  | EIf c a b =>
      rdo _ <- dstm ev c; rdo x <- de ev c; rdo t <- truth x;
      if t then rdo _ <- dstm ev a; rdo _ <- de ev a; ROk tt else rdo _ <- dstm ev b; rdo _ <- de ev b; ROk tt
  end.
Definition dex (ev : event) (e : ex) : res value := rdo _ <- dstm ev e; de ev e.

(* a vector column: the values of the body on the passing elements, in order, stored with the element type *)
Fixpoint vec_loop (ev : event) (ty : string) (body : bexp) (ps : guard) (l : list value) (acc : list value) : res (list value) :=
  match l with
  | [] => ROk acc
  | v :: r => rdo b <- gpasses ev v ps;
              if b then rdo x <- db ev v body; vec_loop ev ty body ps r (acc ++ [conv ty x]) else vec_loop ev ty body ps r acc
  end.
(* First: the predicates are applied to every element (the loop runs to the end), the body only to the first
   passing one *)
Fixpoint first_loop (ev : event) (ty : string) (body : pa) (ps : guard) (l : list value) (found : option value) : res (option value) :=
  match l with
  | [] => ROk found
  | v :: r => rdo b <- gpasses ev v ps;
              if b then match found with
                        | Some _ => first_loop ev ty body ps r found
                        | None => rdo x <- dpa ev v body; first_loop ev ty body ps r (Some (conv ty x))
                        end
              else first_loop ev ty body ps r found
  end.
(* 2-D: for every passing element of the first collection, in order, the vector column of the second collection (which
   is retrieved then: a missing second bank is a fault only when an outer element passes) *)
Definition dvec_of (ev : event) (cr : collref) (ps : guard) (body : bexp) : res value :=
  match assoc_ss (c_ctype cr, c_bank cr) (ev_colls ev) with
  | None => RFault FRetrieve
  | Some (VVec l) => rdo vs <- vec_loop ev (btype body) body ps l []; ROk (VVec vs)
  | Some VNull => RFault FNullDeref
  | Some _ => RStuck (KType "the bank does not hold a collection")
  end.
Fixpoint vec2_loop (ev : event) (g1 : guard) (c2 : collref) (g2 : guard) (body : bexp) (l : list value) (acc : list value) : res (list value) :=
  match l with
  | [] => ROk acc
  | v :: r => rdo b <- gpasses ev v g1;
              if b then rdo x <- dvec_of ev c2 g2 body; vec2_loop ev g1 c2 g2 body r (acc ++ [x]) else vec2_loop ev g1 c2 g2 body r acc
  end.
Fixpoint flat_loop (ev : event) (g1 : guard) (c2 : collref) (g2 : guard) (body : bexp) (l : list value) (acc : list value) : res (list value) :=
  match l with
  | [] => ROk acc
  | v :: r => rdo b <- gpasses ev v g1;
              if b then
                match assoc_ss (c_ctype c2, c_bank c2) (ev_colls ev) with
                | None => RFault FRetrieve
                | Some (VVec l2) => rdo acc' <- vec_loop ev (btype body) body g2 l2 acc; flat_loop ev g1 c2 g2 body r acc'
                | Some VNull => RFault FNullDeref
                | Some _ => RStuck (KType "the bank does not hold a collection")
                end
              else flat_loop ev g1 c2 g2 body r acc
  end.
(* First with conditionals: the conditions of the body are evaluated on every passing element, the value on the first *)
Fixpoint firstb_loop (ev : event) (ty : string) (body : bexp) (ps : guard) (l : list value) (found : option value) : res (option value) :=
  match l with
  | [] => ROk found
  | v :: r => rdo b <- gpasses ev v ps;
              if b then rdo rs <- dconds ev v body;
                        match found with
                        | Some _ => firstb_loop ev ty body ps r found
                        | None => rdo x <- dbx ev v body rs; firstb_loop ev ty body ps r (Some (conv ty x))
                        end
              else firstb_loop ev ty body ps r found
  end.
Definition dcol (ev : event) (c : column) : res value :=
  match c with
  | ColFirstB cr ps body _ =>
      match assoc_ss (c_ctype cr, c_bank cr) (ev_colls ev) with
      | None => RFault FRetrieve
      | Some (VVec l) => rdo o <- firstb_loop ev (btype body) body ps l None;
                         match o with Some x => ROk x | None => RFault FThrow end
      | Some VNull => RFault FNullDeref
      | Some _ => RStuck (KType "the bank does not hold a collection")
      end
  | ColFlat c1 g1 c2 g2 body =>
      match assoc_ss (c_ctype c1, c_bank c1) (ev_colls ev) with
      | None => RFault FRetrieve
      | Some (VVec l) => rdo vs <- flat_loop ev g1 c2 g2 body l []; ROk (VVec vs)
      | Some VNull => RFault FNullDeref
      | Some _ => RStuck (KType "the bank does not hold a collection")
      end
  | ColVec2 c1 g1 c2 g2 body =>
      match assoc_ss (c_ctype c1, c_bank c1) (ev_colls ev) with
      | None => RFault FRetrieve
      | Some (VVec l) => rdo vs <- vec2_loop ev g1 c2 g2 body l []; ROk (VVec vs)
      | Some VNull => RFault FNullDeref
      | Some _ => RStuck (KType "the bank does not hold a collection")
      end
  | ColScalar e => rdo v <- de ev e; ROk (conv (ex_type e) v)
  | ColVec cr ps body =>
      match assoc_ss (c_ctype cr, c_bank cr) (ev_colls ev) with
      | None => RFault FRetrieve
      | Some (VVec l) => rdo vs <- vec_loop ev (btype body) body ps l []; ROk (VVec vs)
      | Some VNull => RFault FNullDeref
      | Some _ => RStuck (KType "the bank does not hold a collection")
      end
  | ColFirst cr ps body _ =>
      match assoc_ss (c_ctype cr, c_bank cr) (ev_colls ev) with
      | None => RFault FRetrieve
      | Some (VVec l) => rdo o <- first_loop ev (pa_type body) body ps l None;
                         match o with Some x => ROk x | None => RFault FThrow end
      | Some VNull => RFault FNullDeref
      | Some _ => RStuck (KType "the bank does not hold a collection")
      end
  end.
(* the ordinary evaluation of a row: column after column *)
Fixpoint dnatrow (ev : event) (r : row) : res (list value) :=
  match r with
  | [] => ROk []
  | (_, c) :: t => rdo v <- dcol ev c; rdo vs <- dnatrow ev t; ROk (v :: vs)
  end.
(* the row in the two phases of the emitted code: the statements of every column in order (a vector or First column is
   complete after them; of a scalar column only its retrievals and loops have run), then the scalar columns' value
   expressions in order.  Same rows as dnatrow whenever either has a value (FragProofs.drow_natural). *)
Definition dcol1 (ev : event) (c : column) : res (option value) :=
  match c with
  | ColScalar e => rdo _ <- dstm ev e; ROk None
  | _ => rdo v <- dcol ev c; ROk (Some v)
  end.
Definition dcol2 (ev : event) (c : column) (p : option value) : res value :=
  match c, p with
  | ColScalar e, _ => rdo v <- de ev e; ROk (conv (ex_type e) v)
  | _, Some v => ROk v
  | _, None => RStuck (KType "column value")
  end.
Fixpoint drow1 (ev : event) (r : row) : res (list (option value)) :=
  match r with
  | [] => ROk []
  | (_, c) :: t => rdo p <- dcol1 ev c; rdo ps <- drow1 ev t; ROk (p :: ps)
  end.
Fixpoint drow2 (ev : event) (r : row) (ps : list (option value)) : res (list value) :=
  match r, ps with
  | [], _ => ROk []
  | (_, c) :: t, p :: ps' => rdo v <- dcol2 ev c p; rdo vs <- drow2 ev t ps'; ROk (v :: vs)
  | _ :: _, [] => RStuck (KType "row values")
  end.
Definition drow (ev : event) (r : row) : res (list value) := rdo ps <- drow1 ev r; drow2 ev r ps.

(* when nothing faults, the streaming count is the length of the filtered list *)
Definition passes_total (ev : event) (ps : guard) (l : list value) (f : value -> bool) : Prop :=
  forall v, In v l -> gpasses ev v ps = ROk (f v).

(* ---------- wire format ---------- *)
Fixpoint d_pa_fuel (fuel : nat) (s : sexp) : option pa :=
  match fuel with
  | O => None
  | S f =>
    match s with
    | SList [SAtom "int"; z] => option_map PInt (d_Z z)
    | SList [SAtom "dbl"; SAtom t; n; d] =>
        match d_Z n, d_Z d with Some n', Some (Zpos d') => Some (PDbl t n' d') | _, _ => None end
    | SList [SAtom "meth"; SAtom m] => Some (PMeth m)
    | SList [SAtom "bin"; SAtom op; a; b] =>
        match d_pa_fuel f a, d_pa_fuel f b with Some a', Some b' => Some (PBin op a' b') | _, _ => None end
    | SList [SAtom "div"; a; b] =>
        match d_pa_fuel f a, d_pa_fuel f b with Some a', Some b' => Some (PDiv a' b') | _, _ => None end
    | SList [SAtom "neg"; a] => option_map PNeg (d_pa_fuel f a)
    | SList [SAtom "fun"; SAtom g; a] => option_map (PFun g) (d_pa_fuel f a)
    | _ => None
    end
  end.
Definition d_pa (s : sexp) : option pa := d_pa_fuel (S (sexp_depth s)) s.
Definition d_pred0 (s : sexp) : option pred :=
  match s with
  | SList [SAtom op; l; r] =>
      match d_pa l, d_pa r with Some l', Some r' => Some {| p_neg := false; p_op := op; p_l := l'; p_r := r' |} | _, _ => None end
  | SList [SAtom "not"; SAtom op; l; r] =>
      match d_pa l, d_pa r with Some l', Some r' => Some {| p_neg := true; p_op := op; p_l := l'; p_r := r' |} | _, _ => None end
  | _ => None
  end.
Fixpoint d_bexp_fuel (fuel : nat) (s : sexp) : option bexp :=
  match fuel with
  | O => None
  | S f =>
    match s with
    | SList [SAtom "if"; c; a; b] =>
        match d_pred0 c, d_pa a, d_pa b with Some c', Some a', Some b' => Some (BIf c' a' b') | _, _, _ => None end
    | SList [SAtom "bbin"; SAtom op; x; y] =>
        match d_bexp_fuel f x, d_bexp_fuel f y with Some x', Some y' => Some (BBin op x' y') | _, _ => None end
    | _ => option_map BPa (d_pa s)
    end
  end.
Definition d_bexp (s : sexp) : option bexp := d_bexp_fuel (S (sexp_depth s)) s.
Definition d_pred (s : sexp) : option pred :=
  match s with
  | SList [SAtom op; l; r] =>
      match d_pa l, d_pa r with Some l', Some r' => Some {| p_neg := false; p_op := op; p_l := l'; p_r := r' |} | _, _ => None end
  | SList [SAtom "not"; SAtom op; l; r] =>
      match d_pa l, d_pa r with Some l', Some r' => Some {| p_neg := true; p_op := op; p_l := l'; p_r := r' |} | _, _ => None end
  | _ => None
  end.
(* a guard on the wire: a plain list of predicates (nested Where), or (and p1 p2 ..) / (or p1 p2 ..) *)
Definition d_guard (ps : list sexp) : option guard :=
  match ps with
  | SAtom "and" :: p :: r => match d_pred p, d_list d_pred r with Some p', Some r' => Some (GBool true p' r') | _, _ => None end
  | SAtom "or" :: p :: r => match d_pred p, d_list d_pred r with Some p', Some r' => Some (GBool false p' r') | _, _ => None end
  | [] => Some GNone
  | [p] => option_map GOne (d_pred p)
  | _ => None
  end.
Definition d_seed (s : sexp) : option seed :=
  match s with
  | SList [SAtom "int"; z] => option_map SdInt (d_Z z)
  | SList [SAtom "dbl"; SAtom t; n; d] =>
      match d_Z n, d_Z d with Some n', Some (Zpos d') => Some (SdDbl t n' d') | _, _ => None end
  | _ => None
  end.
Definition d_cnt (s : sexp) : option cnt :=
  match s with
  | SList [SAtom base; SAtom ct; SAtom bank; ar; SList ps; g] =>
      match d_bool ar, d_guard ps, (match g with
                                          | SList [SAtom "count"] => Some ACount
                                          | SList [SAtom "sum"; b] => option_map ASum (d_bexp b)
                                          | SList [SAtom "agg"; sd; SAtom op; b] =>
                                              if String.eqb op "+" || String.eqb op "-" || String.eqb op "*"
                                              then match d_seed sd, d_bexp b with
                                                   | Some sd', Some b' => Some (AAgg sd' op b') | _, _ => None end
                                              else None
                                          | _ => None end) with
      | Some ar', Some ps', Some g' =>
          Some {| k_coll := {| c_base := base; c_ctype := ct; c_bank := bank; c_arrow := ar' |}; k_guard := ps'; k_agg := g' |}
      | _, _, _ => None
      end
  | _ => None
  end.
Fixpoint d_ex_fuel (fuel : nat) (s : sexp) : option ex :=
  match fuel with
  | O => None
  | S f =>
    match s with
    | SList [SAtom "int"; z] => option_map EInt (d_Z z)
    | SList [SAtom "count"; k] => option_map ECount (d_cnt k)
    | SList [SAtom "bin"; SAtom op; a; b] =>
        match bop_of op, d_ex_fuel f a, d_ex_fuel f b with
        | Some o, Some a', Some b' => Some (EBin o a' b') | _, _, _ => None end
    | SList [SAtom "dbl"; SAtom t; n; d] =>
        match d_Z n, d_Z d with Some n', Some (Zpos d') => Some (EDbl t n' d') | _, _ => None end
    | SList [SAtom "div"; a; b] =>
        match d_ex_fuel f a, d_ex_fuel f b with Some a', Some b' => Some (EDiv a' b') | _, _ => None end
    | SList [SAtom "and"; a; b] =>
        match d_ex_fuel f a, d_ex_fuel f b with Some a', Some b' => Some (EBool true a' b') | _, _ => None end
    | SList [SAtom "or"; a; b] =>
        match d_ex_fuel f a, d_ex_fuel f b with Some a', Some b' => Some (EBool false a' b') | _, _ => None end
    | SList [SAtom "eif"; c; a; b] =>
        match d_ex_fuel f c, d_ex_fuel f a, d_ex_fuel f b with Some c', Some a', Some b' => Some (EIf c' a' b') | _, _, _ => None end
    | SList [SAtom "neg"; a] => option_map ENeg (d_ex_fuel f a)
    | SList [SAtom "fun"; SAtom fn; a] => option_map (EFun fn) (d_ex_fuel f a)
    | SList [SAtom "idx"; SAtom base; SAtom ct; SAtom bank; ar; i; SAtom m] =>
        match d_bool ar, d_nat i with
        | Some ar', Some i' => Some (EIdx {| c_base := base; c_ctype := ct; c_bank := bank; c_arrow := ar' |} i' m)
        | _, _ => None
        end
    | _ => None
    end
  end.
Definition d_ex (s : sexp) : option ex := d_ex_fuel (S (sexp_depth s)) s.

Definition d_col (s : sexp) : option (string * column) :=
  match s with
  | SList [SAtom name; SList [SAtom "scalar"; e]] => option_map (fun e' => (name, ColScalar e')) (d_ex e)
  | SList [SAtom name; SList [SAtom "vec"; SAtom base; SAtom ct; SAtom bank; ar; SList ps; b]] =>
      match d_bool ar, d_guard ps, d_bexp b with
      | Some ar', Some ps', Some b' =>
          Some (name, ColVec {| c_base := base; c_ctype := ct; c_bank := bank; c_arrow := ar' |} ps' b')
      | _, _, _ => None
      end
  | SList [SAtom name; SList [SAtom "vec2"; SAtom base1; SAtom ct1; SAtom bank1; ar1; SList ps1; SAtom base2; SAtom ct2; SAtom bank2; ar2; SList ps2; b]] =>
      match d_bool ar1, d_guard ps1, d_bool ar2, d_guard ps2, d_bexp b with
      | Some a1, Some g1, Some a2, Some g2, Some b' =>
          Some (name, ColVec2 {| c_base := base1; c_ctype := ct1; c_bank := bank1; c_arrow := a1 |} g1
                              {| c_base := base2; c_ctype := ct2; c_bank := bank2; c_arrow := a2 |} g2 b')
      | _, _, _, _, _ => None
      end
  | SList [SAtom name; SList [SAtom "flat"; SAtom base1; SAtom ct1; SAtom bank1; ar1; SList ps1; SAtom base2; SAtom ct2; SAtom bank2; ar2; SList ps2; b]] =>
      match d_bool ar1, d_guard ps1, d_bool ar2, d_guard ps2, d_bexp b with
      | Some a1, Some g1, Some a2, Some g2, Some b' =>
          Some (name, ColFlat {| c_base := base1; c_ctype := ct1; c_bank := bank1; c_arrow := a1 |} g1
                              {| c_base := base2; c_ctype := ct2; c_bank := bank2; c_arrow := a2 |} g2 b')
      | _, _, _, _, _ => None
      end
  | SList [SAtom name; SList [SAtom "firstb"; SAtom base; SAtom ct; SAtom bank; ar; SList ps; b; SAtom line]] =>
      match d_bool ar, d_guard ps, d_bexp b with
      | Some ar', Some ps', Some b' =>
          Some (name, ColFirstB {| c_base := base; c_ctype := ct; c_bank := bank; c_arrow := ar' |} ps' b' line)
      | _, _, _ => None
      end
  | SList [SAtom name; SList [SAtom "first"; SAtom base; SAtom ct; SAtom bank; ar; SList ps; b; SAtom line]] =>
      match d_bool ar, d_guard ps, d_pa b with
      | Some ar', Some ps', Some b' =>
          Some (name, ColFirst {| c_base := base; c_ctype := ct; c_bank := bank; c_arrow := ar' |} ps' b' line)
      | _, _, _ => None
      end
  | _ => None
  end.

(* c01.fragrow: (idiom, tree, fill line, columns, first index) -> printed query code, class declaration, branches *)
Definition run_fragrow (s : sexp) : sexp :=
  match s with
  | SList [SAtom idiom; SAtom tree; SAtom fill; SList cols; n0] =>
      match d_list d_col cols, d_nat n0 with
      | Some r, Some n =>
          let p := prog_row {| b_idiom := idiom; b_tree := tree; b_fill := fill |} r n in
          s_tag "ok" [s_strs (print_block (p_body p)); s_strs (print_members (p_members p));
                      s_strs (map (fun b => br_name b +++ "=" +++ br_var b) (p_branches p))]
      | _, _ => bad_input
      end
  | _ => bad_input
  end.
Definition run_denote_row (s : sexp) : sexp :=
  match s with
  | SList [SList cols; evs] =>
      match d_list d_col cols, d_event evs with
      | Some r, Some ev =>
          match drow ev r with
          | ROk vs => s_tag "ok" [SList (map s_value vs)]
          | RFault f => s_tag "fault" [s_fault f]
          | RStuck k => s_tag "stuck" [s_stuck k]
          end
      | _, _ => bad_input
      end
  | _ => bad_input
  end.

(* c01.frag: (idiom, tree, fill line, ex, first index) -> printed query code, class declaration, branch *)
Definition run_frag (s : sexp) : sexp :=
  match s with
  | SList [SAtom idiom; SAtom tree; SAtom fill; e; n0] =>
      match d_ex e, d_nat n0 with
      | Some e', Some n =>
          let p := prog {| b_idiom := idiom; b_tree := tree; b_fill := fill |} e' n in
          s_tag "ok" [s_strs (print_block (p_body p)); s_strs (print_members (p_members p));
                      s_strs (map (fun b => br_name b +++ "=" +++ br_var b) (p_branches p))]
      | _, _ => bad_input
      end
  | _ => bad_input
  end.

(* c01.denote: (ex, event) -> the reference value of the query on the event *)
Definition run_denote (s : sexp) : sexp :=
  match s with
  | SList [e; evs] =>
      match d_ex e, d_event evs with
      | Some e', Some ev =>
          match de ev e' with
          | ROk v => s_tag "ok" [s_value v]
          | RFault f => s_tag "fault" [s_fault f]
          | RStuck k => s_tag "stuck" [s_stuck k]
          end
      | _, _ => bad_input
      end
  | _ => bad_input
  end.
