(* Model of the inject_code path:
     func_adl_xAOD/common/meta_data.py : InjectCodeBlock, ok_to_add_code_block, process_metadata (inject_code branch)
     func_adl_xAOD/common/executor.py  : _ib_fetch and its properties, the info dict of write_cpp_files,
                                         rendering of the package templates (jinja2, default options).
   The dataclass field list, the property/info wiring and the templates themselves are NOT written here:
   they are regenerated from /repo into gen/Templates.v (a [config]); every function below takes them as
   arguments.  Executable definitions only; proofs are in Proofs/InjectProofs.v. *)
From FV Require Import Base.Prelude.

(* ---------- values that metadata dictionaries carry ---------- *)
(* A dictionary value is a Python str or a list of str (the dataclass does not check which). *)
Inductive pyval := PStr (s : string) | PList (l : list string).

Definition pyval_eqb (a b : pyval) : bool :=
  match a, b with
  | PStr x, PStr y => String.eqb x y
  | PList x, PList y => list_str_eqb x y
  | _, _ => false
  end.

(* iteration over a value, as itertools.chain( *... ) does: a list yields its items, a str its characters *)
Definition lines_of (v : pyval) : list string :=
  match v with
  | PList l => l
  | PStr s => map (fun c => String c EmptyString) (list_ascii_of_string s)
  end.

(* an inject_code dictionary after `del info["metadata_type"]`: key/value pairs *)
Definition raw := list (string * pyval).

Fixpoint lookup {A} (k : string) (l : list (string * A)) : option A :=
  match l with
  | [] => None
  | (k', v) :: r => if String.eqb k k' then Some v else lookup k r
  end.

(* ---------- meta_data.py ---------- *)
(* An InjectCodeBlock instance: its name and the value of every list field, in dataclass field order. *)
Record block := { b_name : pyval; b_vals : list (string * pyval) }.

Fixpoint vals_eqb (a b : list (string * pyval)) : bool :=
  match a, b with
  | [], [] => true
  | (k, v) :: a', (k', v') :: b' => String.eqb k k' && pyval_eqb v v' && vals_eqb a' b'
  | _, _ => false
  end.

(* dataclass __eq__: same class, tuple of all fields equal *)
Definition block_eqb (a b : block) : bool :=
  pyval_eqb (b_name a) (b_name b) && vals_eqb (b_vals a) (b_vals b).

(* mirrors meta_data.py: process_metadata, `spec = InjectCodeBlock( **info )` with TypeError -> ValueError:
   an unexpected keyword or a missing `name` is a TypeError; absent list fields default to []. *)
Definition mk_block (fields : list string) (info : raw) : result block :=
  if forallb (fun kv : string * pyval => mem_str (fst kv) ("name" :: fields)) info then
    match lookup "name" info with
    | None => Error ErrValue
    | Some nm =>
        OK {| b_name := nm;
              b_vals := map (fun f => (f, match lookup f info with Some v => v | None => PList [] end)) fields |}
    end
  else Error ErrValue.

(* mirrors meta_data.py: ok_to_add_code_block (cpp_funcs restricted to its InjectCodeBlock items) *)
Fixpoint ok_to_add (spec : block) (acc : list block) : result bool :=
  match acc with
  | [] => OK true
  | b :: r =>
      if pyval_eqb (b_name b) (b_name spec) then
        (if block_eqb b spec then OK false else Error ErrValue)
      else ok_to_add spec r
  end.

(* mirrors meta_data.py: process_metadata, the loop restricted to the inject_code items of md_list
   (other metadata types append other classes to cpp_funcs, which ok_to_add_code_block skips and
   executor.apply_ast_transformations filters out with isinstance). *)
Fixpoint process (fields : list string) (md : list raw) (acc : list block) : result (list block) :=
  match md with
  | [] => OK acc
  | info :: r =>
      match info with
      | [] => process fields r acc                 (* `if len(info) > 0` *)
      | _ =>
          match mk_block fields info with
          | Error e => Error e
          | OK spec =>
              match ok_to_add spec acc with
              | Error e => Error e
              | OK true => process fields r (acc ++ [spec])
              | OK false => process fields r acc
              end
          end
      end
  end.

Definition dedup (fields : list string) (md : list raw) : result (list block) := process fields md [].

(* ---------- executor.py: _ib_fetch ---------- *)
(* getattr(md, name) *)
Definition get (f : string) (b : block) : list string :=
  match lookup f (b_vals b) with Some v => lines_of v | None => [] end.

(* mirrors executor.py: executor._ib_fetch *)
Definition ib_fetch (f : string) (blocks : list block) : list string := flat_map (get f) blocks.

(* ---------- templates ---------- *)
Inductive tnode :=
| TText (s : string)
| TVar (x : string)
| TFor (x y : string) (body : list tnode).

(* the template context: top-level names to lists of strings; an unknown name is jinja2's Undefined,
   which iterates as empty *)
Definition genv := string -> list string.
Definition lenv := list (string * string).

(* jinja2, default options: text is copied, {{x}} inserts str(value) with no escaping and no second
   rendering pass (an unbound name renders as ""), a for loop concatenates its body once per item *)
Fixpoint render_node (g : genv) (l : lenv) (n : tnode) {struct n} : string :=
  match n with
  | TText s => s
  | TVar x => match lookup x l with Some v => v | None => "" end
  | TFor x y body =>
      concat_str
        (map (fun v =>
                (fix go (ns : list tnode) : string :=
                   match ns with
                   | [] => ""
                   | n' :: r => render_node g ((x, v) :: l) n' +++ go r
                   end) body)
             (g y))
  end.

Fixpoint render_nodes (g : genv) (l : lenv) (ns : list tnode) : string :=
  match ns with
  | [] => ""
  | n :: r => render_node g l n +++ render_nodes g l r
  end.

Definition render (t : list tnode) (g : genv) : string := render_nodes g [] t.

(* ---------- executor.py: the info dict ---------- *)
Inductive source := SrcQv (expr : string) | SrcProp (prop : string).

Record backend := { be_name : string; be_extra_keys : list string; be_templates : list (string * list tnode) }.

Record config := {
  c_fields : list string;                       (* InjectCodeBlock list fields *)
  c_props : list (string * string);             (* executor property -> field handed to _ib_fetch *)
  c_wiring : list (string * list source);       (* info[key] = sum of sources *)
  c_backends : list backend
}.

(* values that come from the query (visitor, emitters, add_to_replacement_dict), named by the expression text *)
Definition qenv := string -> list string.

Definition source_val (c : config) (q : qenv) (blocks : list block) (s : source) : list string :=
  match s with
  | SrcQv e => q e
  | SrcProp p => match lookup p (c_props c) with Some f => ib_fetch f blocks | None => [] end
  end.

(* mirrors executor.py: write_cpp_files, `info[...] = ...` then `info.update(self.add_to_replacement_dict())`:
   keys of the update win over the assignments. *)
Definition info (c : config) (be : backend) (q : qenv) (blocks : list block) : genv :=
  fun key =>
    if mem_str key (be_extra_keys be) then q key
    else match lookup key (c_wiring c) with
         | Some srcs => flat_map (source_val c q blocks) srcs
         | None => []
         end.

Definition find_backend (c : config) (name : string) : option backend :=
  find (fun be => String.eqb (be_name be) name) (c_backends c).

(* mirrors executor.py: write_cpp_files + _copy_template_file for one file *)
Definition render_file (c : config) (be : backend) (file : string) (q : qenv) (blocks : list block) : option string :=
  match lookup file (be_templates be) with
  | Some t => Some (render t (info c be q blocks))
  | None => None
  end.

(* process_metadata followed by the rendering of every file of the backend *)
Definition package (c : config) (be : backend) (q : qenv) (md : list raw) : result (list (string * string)) :=
  match dedup (c_fields c) md with
  | Error e => Error e
  | OK blocks => OK (map (fun ft : string * list tnode => (fst ft, render (snd ft) (info c be q blocks))) (be_templates be))
  end.

(* ---------- slots: where a list variable is expanded ---------- *)
Record slot := { sl_pre : list tnode; sl_x : string; sl_body : list tnode; sl_post : list tnode }.

(* the first top-level loop over y *)
Fixpoint find_slot (y : string) (t : list tnode) : option slot :=
  match t with
  | [] => None
  | TFor x y' body :: r =>
      if String.eqb y y' then Some {| sl_pre := []; sl_x := x; sl_body := body; sl_post := r |}
      else option_map (fun s => {| sl_pre := TFor x y' body :: sl_pre s; sl_x := sl_x s; sl_body := sl_body s; sl_post := sl_post s |})
                      (find_slot y r)
  | n :: r =>
      option_map (fun s => {| sl_pre := n :: sl_pre s; sl_x := sl_x s; sl_body := sl_body s; sl_post := sl_post s |})
                 (find_slot y r)
  end.

(* does any loop (at any depth) iterate over y? *)
Fixpoint uses_node (y : string) (n : tnode) {struct n} : bool :=
  match n with
  | TText _ | TVar _ => false
  | TFor _ y' body =>
      String.eqb y y' ||
      (fix go (ns : list tnode) : bool :=
         match ns with [] => false | n' :: r => uses_node y n' || go r end) body
  end.
Fixpoint uses (y : string) (ns : list tnode) : bool :=
  match ns with [] => false | n :: r => uses_node y n || uses y r end.

(* a loop body made of text and of the loop variable only *)
Definition flat_body (x : string) (body : list tnode) : bool :=
  forallb (fun n => match n with TText _ => true | TVar z => String.eqb z x | TFor _ _ _ => false end) body.

(* what one item of the list becomes: the static text of the loop body around the item, the item verbatim *)
Fixpoint wrap (x : string) (body : list tnode) (v : string) : string :=
  match body with
  | [] => ""
  | TText s :: r => s +++ wrap x r v
  | TVar z :: r => (if String.eqb z x then v else "") +++ wrap x r v
  | TFor _ _ _ :: r => wrap x r v
  end.

(* the static text of a node list with every loop elided *)
Fixpoint static_text (ns : list tnode) : string :=
  match ns with
  | [] => ""
  | TText s :: r => s +++ static_text r
  | _ :: r => static_text r
  end.

(* the info keys a field reaches, through its property *)
Definition keys_of_field (c : config) (f : string) : list string :=
  flat_map (fun kw : string * list source =>
              if existsb (fun s => match s with
                                   | SrcProp p => match lookup p (c_props c) with Some f' => String.eqb f f' | None => false end
                                   | SrcQv _ => false end) (snd kw)
              then [fst kw] else []) (c_wiring c).

(* info[key] = (values from the query) + self.<property of f>: the query expressions, in order *)
Fixpoint split_last_prop (c : config) (f : string) (srcs : list source) : option (list string) :=
  match srcs with
  | [] => None
  | [SrcProp p] => match lookup p (c_props c) with
                   | Some f' => if String.eqb f f' then Some [] else None
                   | None => None
                   end
  | SrcQv e :: r => option_map (cons e) (split_last_prop c f r)
  | SrcProp _ :: _ => None
  end.

Definition key_shape (c : config) (f key : string) : option (list string) :=
  match lookup key (c_wiring c) with
  | Some srcs => split_last_prop c f srcs
  | None => None
  end.

(* the slot of field f in backend be: file, info key, position in the template, and the query expressions whose
   values precede the injected lines; defined when f reaches exactly one info key, that key is not overridden
   by add_to_replacement_dict, exactly one file of the backend loops over it, exactly once, at top level,
   with a body made of text and the loop variable *)
Definition slot_of (c : config) (be : backend) (f : string) : option (string * string * slot * list string) :=
  match keys_of_field c f with
  | [key] =>
      if mem_str key (be_extra_keys be) then None else
      match key_shape c f key with
      | None => None
      | Some qs =>
          match filter (fun ft : string * list tnode => uses key (snd ft)) (be_templates be) with
          | [(file, _)] =>
              match lookup file (be_templates be) with
              | Some t =>
                  match find_slot key t with
                  | Some s =>
                      if negb (uses key (sl_pre s)) && negb (uses key (sl_body s)) && negb (uses key (sl_post s))
                         && flat_body (sl_x s) (sl_body s)
                      then Some (file, key, s, qs) else None
                  | None => None
                  end
              | None => None
              end
          | _ => None
          end
      end
  | _ => None
  end.

(* ---------- substring utilities for the documented-place table (used by computation only) ---------- *)
Fixpoint prefixb (p s : string) : bool :=
  match p, s with
  | EmptyString, _ => true
  | String a p', String b s' => Ascii.eqb a b && prefixb p' s'
  | _, _ => false
  end.

Fixpoint containsb (needle s : string) : bool :=
  prefixb needle s || match s with EmptyString => false | String _ s' => containsb needle s' end.

Fixpoint drop (n : nat) (s : string) : string :=
  match n, s with O, _ => s | S k, String _ s' => drop k s' | S _, EmptyString => EmptyString end.

(* the text after the last occurrence of needle *)
Fixpoint after_last (needle s : string) : option string :=
  match s with
  | EmptyString => if prefixb needle s then Some s else None
  | String _ s' =>
      match after_last needle s' with
      | Some r => Some r
      | None => if prefixb needle s then Some (drop (String.length needle) s) else None
      end
  end.

(* the text before the first occurrence of needle *)
Fixpoint before_first (needle s : string) : option string :=
  if prefixb needle s then Some EmptyString else
  match s with
  | EmptyString => None
  | String a s' => option_map (String a) (before_first needle s')
  end.

Definition is_space (a : ascii) : bool :=
  let n := nat_of_ascii a in (n =? 32)%nat || (n =? 10)%nat || (n =? 9)%nat.
Fixpoint all_space (s : string) : bool :=
  match s with EmptyString => true | String a s' => is_space a && all_space s' end.
Fixpoint ltrim (s : string) : string :=
  match s with String a s' => if is_space a then ltrim s' else s | EmptyString => s end.

(* ---------- documented places (hand-written from the comments of the InjectCodeBlock dataclass) ---------- *)
Inductive place :=
| PIncludeArea (file : string) (before_decl : string)   (* an #include "..." line of its own, before the first declaration *)
| PClassPrivate (file : string)                         (* a line in the private: section of the class, before its closing brace *)
| PCtorInit (file : string)                             (* a `,item` of the constructor initialiser list *)
| PFunctionBody (file : string) (sig : string) (before_return : bool)  (* a line between the braces of that function *)
| PLinkLibraries (file : string).                       (* an item of LINK_LIBRARIES of atlas_add_library *)

Definition atlas_places : list (string * place) :=
  [ ("body_includes", PIncludeArea "query.cxx" "query ::");        (* "Include files for the cpp code" *)
    ("header_includes", PIncludeArea "query.h" "class ");          (* "Include files for the hpp code" *)
    ("private_members", PClassPrivate "query.h");                  (* "Instance variable declarations" *)
    ("instance_initialization", PCtorInit "query.cxx");            (* "Instance variable ctor initializers" *)
    ("ctor_lines", PFunctionBody "query.cxx" "query :: query (" false);          (* "Code lines to place in the constructor" *)
    ("initialize_lines", PFunctionBody "query.cxx" "query :: initialize ()" true); (* "Lines to add to initialize statement" *)
    ("link_libraries", PLinkLibraries "package_CMakeLists.txt") ]. (* "Packages/Libraries to add to the CMake lib line" *)

Definition cms_places : list (string * place) :=
  [ ("body_includes", PIncludeArea "Analyzer.cc" "class ") ].

Definition wrap_parts (s : slot) : option (string * string) :=
  match sl_body s with
  | [TText a; TVar _; TText b] => Some (a, b)
  | [TText a; TVar _] => Some (a, "")
  | [TVar _; TText b] => Some ("", b)
  | [TVar _] => Some ("", "")
  | _ => None
  end.

Definition nl : string := String (ascii_of_nat 10) EmptyString.

Definition place_ok (p : place) (file : string) (s : slot) : bool :=
  let pre := static_text (sl_pre s) in
  let post := static_text (sl_post s) in
  match wrap_parts s with
  | None => false
  | Some (wa, wb) =>
      match p with
      | PIncludeArea f decl =>
          String.eqb f file && String.eqb wa (nl +++ "#include """) && String.eqb wb ("""" +++ nl)
          && negb (containsb decl pre) && negb (containsb "{" pre) && containsb decl post
      | PClassPrivate f =>
          String.eqb f file && containsb nl wa && all_space wa && all_space wb
          && match after_last "class query" pre with
             | Some inside =>
                 match after_last "private:" inside with
                 | Some tail => negb (containsb "public:" tail) && negb (containsb "protected:" tail)
                                && negb (containsb "}" tail) && negb (containsb "{" tail)
                 | None => false
                 end
             | None => false
             end
          && prefixb "};" (ltrim post)
      | PCtorInit f =>
          String.eqb f file && prefixb nl wa && containsb "," wa && all_space wb
          && match after_last "query :: query (" pre with
             | Some tail => containsb ": EL::AnaAlgorithm (" tail && negb (containsb "{" tail) && negb (containsb ";" tail)
             | None => false
             end
          && prefixb "{" (ltrim post)
      | PFunctionBody f sig before_return =>
          String.eqb f file && containsb nl wa && all_space wa && all_space wb
          && match after_last sig pre with
             | Some tail => containsb (nl +++ "{") tail && negb (containsb (nl +++ "}") tail)
             | None => false
             end
          && match before_first (nl +++ "}") post with
             | Some rest => negb (containsb (nl +++ "{") rest)
                            && (if before_return then containsb "return StatusCode::SUCCESS;" rest else all_space rest)
             | None => false
             end
      | PLinkLibraries f =>
          String.eqb f file && String.eqb wa "" && String.eqb wb " "
          && match after_last "atlas_add_library (" pre with
             | Some tail =>
                 match after_last "LINK_LIBRARIES " tail with
                 | Some t2 => negb (containsb ")" t2) && negb (containsb nl t2)
                 | None => false
                 end
             | None => false
             end
          && prefixb ")" post
      end
  end.

(* field f has exactly one slot in the backend and it is at the documented place *)
Definition field_placed (c : config) (be : backend) (places : list (string * place)) (f : string) : bool :=
  match lookup f places, slot_of c be f with
  | Some p, Some (file, _, s, _) => place_ok p file s
  | _, _ => false
  end.

(* well-formed wiring: every property names a dataclass field, every SrcProp names a property, every template
   variable is bound by its loop, every loop iterates over a top-level name *)
Fixpoint scoped_node (bound : list string) (n : tnode) {struct n} : bool :=
  match n with
  | TText _ => true
  | TVar x => mem_str x bound
  | TFor x y body =>
      negb (mem_str y bound) && negb (mem_str x bound) &&
      (fix go (ns : list tnode) : bool :=
         match ns with [] => true | n' :: r => scoped_node (x :: bound) n' && go r end) body
  end.

Definition config_wf (c : config) : bool :=
  forallb (fun pf : string * string => mem_str (snd pf) (c_fields c)) (c_props c)
  && forallb (fun kw : string * list source =>
                forallb (fun s => match s with SrcProp p => match lookup p (c_props c) with Some _ => true | None => false end
                                              | SrcQv _ => true end) (snd kw)) (c_wiring c)
  && forallb (fun be => forallb (fun ft : string * list tnode => forallb (scoped_node []) (snd ft)) (be_templates be)) (c_backends c)
  && negb (mem_str "name" (c_fields c)).

(* ---------- wire format ---------- *)
Definition d_pyval (s : sexp) : option pyval :=
  match s with
  | SList [SAtom "s"; SAtom v] => Some (PStr v)
  | SList [SAtom "l"; l] => option_map PList (d_strs l)
  | _ => None
  end.

Definition d_kv (s : sexp) : option (string * pyval) :=
  match s with
  | SList [SAtom k; v] => option_map (fun v' => (k, v')) (d_pyval v)
  | _ => None
  end.

Definition d_raw (s : sexp) : option raw :=
  match s with SList l => d_list d_kv l | _ => None end.

Definition d_md (s : sexp) : option (list raw) :=
  match s with SList l => d_list d_raw l | _ => None end.

Definition d_qenv (s : sexp) : option qenv :=
  match s with
  | SList l =>
      option_map (fun kvs : list (string * list string) =>
                    fun k => match lookup k kvs with Some v => v | None => [] end)
                 (d_list (fun e => match e with
                                   | SList [SAtom k; v] => option_map (fun v' => (k, v')) (d_strs v)
                                   | _ => None end) l)
  | _ => None
  end.

Definition s_pyval (v : pyval) : sexp :=
  match v with PStr s => SList [SAtom "s"; SAtom s] | PList l => SList [SAtom "l"; s_strs l] end.
Definition s_block (b : block) : sexp :=
  SList [s_pyval (b_name b); SList (map (fun kv : string * pyval => SList [SAtom (fst kv); s_pyval (snd kv)]) (b_vals b))].

(* (backend-name q md) -> rendered files *)
Definition run_package (c : config) (s : sexp) : sexp :=
  match s with
  | SList [SAtom bn; qs; mds] =>
      match find_backend c bn, d_qenv qs, d_md mds with
      | Some be, Some q, Some md =>
          s_result (fun fs : list (string * string) => SList (map (fun ft : string * string => SList [SAtom (fst ft); SAtom (snd ft)]) fs))
                   (package c be q md)
      | _, _, _ => bad_input
      end
  | _ => bad_input
  end.

(* md -> the blocks kept *)
Definition run_dedup (c : config) (s : sexp) : sexp :=
  match d_md s with
  | Some md => s_result (fun bs => SList (map s_block bs)) (dedup (c_fields c) md)
  | None => bad_input
  end.

(* the slot table: per backend and field, file / info key / wrapper text / what precedes the injected lines *)
Definition run_slots (c : config) (_ : sexp) : sexp :=
  SList (map (fun be =>
    SList [SAtom (be_name be);
           SList (map (fun f =>
             match slot_of c be f with
             | Some (file, key, s, qs) =>
                 SList [SAtom f; SAtom file; SAtom key; s_strs qs;
                        SAtom (match wrap_parts s with Some (a, _) => a | None => "?" end);
                        SAtom (match wrap_parts s with Some (_, b) => b | None => "?" end);
                        SAtom (static_text (sl_pre s)); SAtom (static_text (sl_post s))]
             | None => SList [SAtom f]
             end) (c_fields c))]) (c_backends c)).
