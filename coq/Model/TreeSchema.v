(* Hand model of the output-tree schema lowering of func_adl_xAOD/common/ast_to_cpp_translator.py
   (get_as_ROOT, _extract_column_names, get_ttree_type, call_ResultTTree), cpp_vars.unique_name,
   generated_code.class_declaration_code and the three backends' book_*_ttree.emit / *_ttree_fill.emit.

   Input abstraction: the representation of the query's final row as the translator sees it when
   call_ResultTTree runs = a list of column representations (value with element type text and optional
   declared tree_type | sequence of a column | raw collection value | nested structure), the terminal
   form (dict / tuple / list / bare, or an explicit AsROOTTTree with its name argument and tree name),
   the backend, and the value of cpp_vars.unique_var_index when the class variables are named.
   Executable definitions only; no proofs here. *)
From FV Require Import Base.Prelude Model.Consts.

(* ---------- backends ---------- *)
Inductive backend := BeAtlas | BeCmsAod | BeCmsMiniaod.

(* mirrors atlas/xaod, cms/aod, cms/miniaod query_ast_visitor.py: __init__ (prefix) *)
Definition prefix_of (b : backend) : string :=
  match b with BeAtlas => "atlas_xaod" | BeCmsAod => "cms_aod" | BeCmsMiniaod => "cms_miniaod" end.

(* ---------- column representations ---------- *)
Inductive colrep :=
| KVal (ty : string) (tree_ty : option string)   (* crep.cpp_value of terminal type `ty`; metadata tree_type if declared *)
| KSeq (inner : colrep)                          (* crep.cpp_sequence whose sequence_value() is `inner` *)
| KColl (ty : string)                            (* crep.cpp_collection (a cpp_value of collection type text `ty`), not iterated *)
| KStruct (top_scope : bool).                    (* crep.cpp_tuple / cpp_dict used as a column (has no cpp_type) *)

(* the final row of the stream *)
Inductive rowshape :=
| RDict (items : list (string * colrep))         (* sequence_value() is a cpp_dict: keys in insertion order *)
| RTuple (cols : list colrep)                    (* a cpp_tuple (Python tuple or list in the query) *)
| RSingle (c : colrep).                          (* a bare value or a sequence *)

(* the second argument of ResultTTree *)
Inductive names_arg := NList (l : list string) | NStr (s : string).

Inductive terminal :=
| TImplicit                                      (* no output format requested: get_as_ROOT wraps *)
| TExplicit (names : names_arg) (tree : string). (* AsROOTTTree(file, tree, names) -> ResultTTree(src, names, tree, file) *)

(* ---------- cpp_vars.unique_name ---------- *)
(* mirrors cpp_vars.py: unique_name (the caller threads unique_var_index) *)
Definition unique_name (name : string) (is_class_var : bool) (index : nat) : string :=
  (if is_class_var then "_" +++ cident name else name) +++ dec_nat index.

(* ---------- types ---------- *)
Definition vector_of (t : string) : string := "std::vector<" +++ t +++ ">".

(* str(rep.cpp_type()): cpp_value -> its type; cpp_sequence.cpp_type -> collection(inner.cpp_type()) *)
Fixpoint cpp_type_of (r : colrep) : result string :=
  match r with
  | KVal ty _ => OK ty
  | KSeq i => match cpp_type_of i with OK t => OK (vector_of t) | Error e => Error e end
  | KColl ty => OK ty
  | KStruct _ => Error ErrAttr
  end.

(* str(rep.cpp_type().tree_type): terminal.tree_type is the declared tree_type if any, else the type itself;
   a collection type never has one *)
Definition tree_type_of (r : colrep) : result string :=
  match r with
  | KVal ty (Some t) => OK t
  | _ => cpp_type_of r
  end.

(* mirrors ast_to_cpp_translator.py: get_ttree_type *)
Definition get_ttree_type (r : colrep) : result string :=
  match r with
  | KSeq inner =>
      match inner with
      | KStruct _ => Error ErrRuntime                 (* "Nested data structures ... not yet supported" *)
      | _ => match tree_type_of inner with OK t => OK (vector_of t) | Error e => Error e end
      end
  | KStruct top => if top then Error ErrValue else Error ErrAttr
  | _ => tree_type_of r
  end.

(* mirrors ast_to_cpp_translator.py: rep_is_collection *)
Definition rep_is_collection (r : colrep) : bool :=
  match r with KSeq _ | KColl _ => true | _ => false end.

(* ---------- names ---------- *)
(* mirrors ast_to_cpp_translator.py: _extract_column_names *)
Definition extract_column_names (a : names_arg) : list string :=
  match a with NStr s => [s] | NList l => l end.

(* 'col0' .. 'col(n-1)' : [f"col{i}" for i, _ in enumerate(values)] *)
Fixpoint default_names_from (i n : nat) : list string :=
  match n with O => [] | S k => ("col" +++ dec_nat i) :: default_names_from (S i) k end.
Definition default_names (n : nat) : list string := default_names_from 0 n.

(* what call_ResultTTree receives: (column names argument, tree name, columns) *)
Record ttree_call := { tc_names : names_arg; tc_tree : string; tc_cols : list colrep }.

(* seq_values of call_ResultTTree: the tuple's values, or the single value wrapped in a 1-tuple *)
Definition row_columns_explicit (r : rowshape) : list colrep :=
  match r with
  | RTuple cols => cols
  | RSingle c => [c]
  | RDict _ => [KStruct false]
  end.

(* mirrors ast_to_cpp_translator.py: get_as_ROOT (the wrapping into a ResultTTree call) *)
Definition get_as_ROOT (b : backend) (t : terminal) (r : rowshape) : result ttree_call :=
  match t with
  | TExplicit names tree => OK {| tc_names := names; tc_tree := tree; tc_cols := row_columns_explicit r |}
  | TImplicit =>
      let tree := prefix_of b +++ "_tree" in
      match r with
      | RDict items => OK {| tc_names := NList (map fst items); tc_tree := tree; tc_cols := map snd items |}
      | RTuple cols => OK {| tc_names := NList (default_names (List.length cols)); tc_tree := tree; tc_cols := cols |}
      | RSingle (KVal ty tr) => OK {| tc_names := NStr "col1"; tc_tree := tree; tc_cols := [KVal ty tr] |}
      | RSingle (KColl ty) => OK {| tc_names := NStr "col1"; tc_tree := tree; tc_cols := [KColl ty] |}
      | RSingle (KSeq i) => OK {| tc_names := NStr "col1"; tc_tree := tree; tc_cols := [KSeq i] |}
      | RSingle (KStruct _) => Error ErrValue
      end
  end.

(* ---------- the booking ---------- *)
Record column := { c_name : string; c_var : string; c_type : string; c_is_vec : bool }.

Record schema := {
  sc_tree : string;
  sc_columns : list column;
  sc_class_decl : list string;     (* generated_code.class_declaration_code *)
  sc_book : list string;           (* book_*_ttree.emit *)
  sc_fill : string;                (* *_ttree_fill.emit *)
  sc_clears : list string;         (* container_clear lines after the fill, in order *)
  sc_descr : string * string;      (* (filename, treename) of the returned cpp_ttree_rep *)
  sc_next_index : nat              (* unique_var_index afterwards (columns + the ttree_rep name) *)
}.

(* the list comprehension building var_names: unique_name first, then get_ttree_type, left to right *)
Fixpoint make_columns (names : list string) (cols : list colrep) (index : nat) : result (list column) :=
  match names, cols with
  | n :: ns, c :: cs =>
      match get_ttree_type c with
      | Error e => Error e
      | OK t =>
          match make_columns ns cs (S index) with
          | Error e => Error e
          | OK r => OK ({| c_name := n; c_var := unique_name n true index; c_type := t;
                           c_is_vec := rep_is_collection c |} :: r)
          end
      end
  | _, _ => OK []
  end.

(* code_fill_ttree asserts that a collection column is a cpp_sequence *)
Fixpoint fill_assert (cols : list colrep) : result unit :=
  match cols with
  | [] => OK tt
  | KColl _ :: _ => Error ErrAssert
  | _ :: r => fill_assert r
  end.

(* mirrors generated_code.py: class_declaration_code  (f"{v.cpp_type()} {v.as_cpp()};\n", newline dropped) *)
Definition class_declaration_code (cs : list column) : list string :=
  map (fun c => c_type c +++ " " +++ c_var c +++ ";") cs.

Definition branch_line (c : column) : string :=
  "myTree->Branch(" +++ cpp_string_literal (c_name c) +++ ", &" +++ c_var c +++ ");".

(* mirrors book_xaod_ttree.emit / book_cms_aod_ttree.emit / book_cms_miniaod_ttree.emit
   (miniAOD: the line as emitted once the misplaced f-prefix is repaired, i.e. the same as AOD) *)
Definition book_emit (b : backend) (tree : string) (cs : list column) : list string :=
  match b with
  | BeAtlas =>
      ["ANA_CHECK (book (TTree (" +++ cpp_string_literal tree +++ ", ""My analysis ntuple"")));";
       "auto myTree = tree (" +++ cpp_string_literal tree +++ ");"]
  | _ =>
      ["edm::Service<TFileService> fs;";
       "myTree = fs->make<TTree>(" +++ cpp_string_literal tree +++ ", ""My analysis ntuple"");"]
  end ++ map branch_line cs.

(* mirrors xaod_ttree_fill.emit / cms_*_ttree_fill.emit *)
Definition fill_emit (b : backend) (tree : string) : string :=
  match b with
  | BeAtlas => "tree(" +++ cpp_string_literal tree +++ ")->Fill();"
  | _ => "myTree->Fill();"
  end.

(* the file name literal of call_ResultTTree: rh.cpp_ttree_rep("ANALYSIS.root", tree_name, ...) *)
Definition descriptor_file : string := "ANALYSIS.root".

(* mirrors ast_to_cpp_translator.py: call_ResultTTree *)
Definition call_ResultTTree (b : backend) (index : nat) (tc : ttree_call) : result schema :=
  let names := extract_column_names (tc_names tc) in
  let cols := tc_cols tc in
  if negb (Nat.eqb (List.length cols) (List.length names)) then Error ErrRuntime
  else
    match make_columns names cols index with
    | Error e => Error e
    | OK cs =>
        match fill_assert cols with
        | Error e => Error e
        | OK _ =>
            OK {| sc_tree := tc_tree tc;
                  sc_columns := cs;
                  sc_class_decl := class_declaration_code cs;
                  sc_book := book_emit b (tc_tree tc) cs;
                  sc_fill := fill_emit b (tc_tree tc);
                  sc_clears := map (fun c => c_var c +++ ".clear();") (filter c_is_vec cs);
                  sc_descr := (descriptor_file, tc_tree tc);
                  sc_next_index := S (index + List.length cs) |}
        end
    end.

(* the whole lowering of the query's end *)
Definition translate_terminal (b : backend) (index : nat) (t : terminal) (r : rowshape) : result schema :=
  match get_as_ROOT b t r with
  | Error e => Error e
  | OK tc => call_ResultTTree b index tc
  end.

(* the names the final expression gives (the property's right-hand side) *)
Definition expected_names (t : terminal) (r : rowshape) : list string :=
  match t with
  | TExplicit names _ => extract_column_names names
  | TImplicit =>
      match r with
      | RDict items => map fst items
      | RTuple cols => default_names (List.length cols)
      | RSingle _ => ["col1"]
      end
  end.
Definition expected_tree (b : backend) (t : terminal) : string :=
  match t with TExplicit _ tree => tree | TImplicit => prefix_of b +++ "_tree" end.
Definition final_columns (t : terminal) (r : rowshape) : list colrep :=
  match t, r with
  | TImplicit, RDict items => map snd items
  | TImplicit, RTuple cols => cols
  | TImplicit, RSingle c => [c]
  | TExplicit _ _, _ => row_columns_explicit r
  end.

(* ---------- the output file the job delivers (constants regenerated from the templates: gen/OutFile.v) ---------- *)
Record atlas_out := {
  ao_stream : string;        (* ATestRun_eljob.py: job.outputAdd(ROOT.EL.OutputStream('<stream>')) *)
  ao_sample : string;        (* ATestRun_eljob.py: ROOT.SH.readFileList(sh, "<sample>", ...) *)
  ao_submit_dir : string;    (* runner.sh: ATestRun_eljob.py --submission-dir=<dir> *)
  ao_copy_source : string    (* runner.sh: $cmd <source> $destination *)
}.
Record cms_out := {
  co_export_var : string; co_export_val : string;   (* runner.sh: export <var>=<val> *)
  co_cfg_env : string;                              (* analyzer_cfg.py: output_file = os.environ["<env>"] *)
  co_cfg_wired : bool;                              (* analyzer_cfg.py: TFileService fileName = cms.string(output_file) *)
  co_cvt_input : string; co_cvt_output : string;    (* runner.sh: copy_root_tree.C("<in>","<out>") in the cp branch *)
  co_dest_dir_file : string;                        (* runner.sh: destination=$output_dir/<file> when output_dir is a directory *)
  co_cfg_label : string;                            (* analyzer_cfg.py: process.<label> = cms.EDAnalyzer(...) *)
  co_copy_dir : string                              (* copy_root_tree.C: f_in->cd("<dir>") *)
}.

(* EventLoop writes <submit>/data-<stream>/<sample>.root ; the runner copies <copy_source> into the output directory *)
Definition atlas_job_writes (a : atlas_out) : string :=
  "./" +++ ao_submit_dir a +++ "/data-" +++ ao_stream a +++ "/" +++ ao_sample a +++ ".root".

Fixpoint basename_acc (s acc : string) : string :=
  match s with
  | EmptyString => acc
  | String c r => if Ascii.eqb c "/"%char then basename_acc r "" else basename_acc r (acc +++ String c "")
  end.
Definition basename (s : string) : string := basename_acc s "".

(* file name under the output directory that the runner delivers, or None when the pieces do not connect *)
Definition atlas_delivers (a : atlas_out) : option string :=
  if String.eqb (atlas_job_writes a) (ao_copy_source a) then Some (basename (ao_copy_source a)) else None.

Definition cms_delivers (c : cms_out) : option string :=
  if String.eqb (co_export_var c) (co_cfg_env c) && co_cfg_wired c
     && String.eqb (co_cvt_input c) ("./$" +++ co_export_var c)
     && String.eqb (co_cvt_output c) "$destination"
     && String.eqb (co_cfg_label c) (co_copy_dir c)
     && String.eqb (co_export_val c) (co_dest_dir_file c)     (* the file cmsRun writes keeps its name when delivered *)
  then Some (co_dest_dir_file c) else None.

(* ---------- wire ---------- *)
Definition d_backend (s : sexp) : option backend :=
  match s with
  | SAtom "atlas" => Some BeAtlas | SAtom "cms_aod" => Some BeCmsAod | SAtom "cms_miniaod" => Some BeCmsMiniaod
  | _ => None
  end.

Fixpoint d_colrep_fuel (fuel : nat) (s : sexp) : option colrep :=
  match fuel with
  | O => None
  | S f =>
      match s with
      | SList [SAtom "val"; SAtom ty; SList []] => Some (KVal ty None)
      | SList [SAtom "val"; SAtom ty; SList [SAtom t]] => Some (KVal ty (Some t))
      | SList [SAtom "seq"; i] => option_map KSeq (d_colrep_fuel f i)
      | SList [SAtom "coll"; SAtom ty] => Some (KColl ty)
      | SList [SAtom "struct"; b] => option_map KStruct (d_bool b)
      | _ => None
      end
  end.
Fixpoint sexp_size (s : sexp) : nat :=
  match s with SAtom _ => 1 | SList l => S (fold_right (fun x a => sexp_size x + a) 0 l) end.
Definition d_colrep (s : sexp) : option colrep := d_colrep_fuel (sexp_size s) s.

Definition d_row (s : sexp) : option rowshape :=
  match s with
  | SList [SAtom "dict"; SList items] =>
      option_map RDict (d_list (fun x => match x with
                                         | SList [SAtom k; c] => option_map (fun c' => (k, c')) (d_colrep c)
                                         | _ => None end) items)
  | SList [SAtom "tuple"; SList cols] => option_map RTuple (d_list d_colrep cols)
  | SList [SAtom "single"; c] => option_map RSingle (d_colrep c)
  | _ => None
  end.

Definition d_terminal (s : sexp) : option terminal :=
  match s with
  | SList [SAtom "implicit"] => Some TImplicit
  | SList [SAtom "explicit"; SList [SAtom "list"; names]; SAtom tree] =>
      option_map (fun l => TExplicit (NList l) tree) (d_strs names)
  | SList [SAtom "explicit"; SList [SAtom "str"; SAtom n]; SAtom tree] => Some (TExplicit (NStr n) tree)
  | _ => None
  end.

Definition s_column (c : column) : sexp :=
  SList [SAtom (c_name c); SAtom (c_var c); SAtom (c_type c); s_bool (c_is_vec c)].
Definition s_schema (s : schema) : sexp :=
  SList [SAtom (sc_tree s); SList (map s_column (sc_columns s)); s_strs (sc_class_decl s); s_strs (sc_book s);
         SAtom (sc_fill s); s_strs (sc_clears s); SList [SAtom (fst (sc_descr s)); SAtom (snd (sc_descr s))];
         s_nat (sc_next_index s)].

(* c03.schema: (backend, index, terminal, row) -> result schema *)
Definition run_schema (s : sexp) : sexp :=
  match s with
  | SList [b; i; t; r] =>
      match d_backend b, d_nat i, d_terminal t, d_row r with
      | Some b', Some i', Some t', Some r' => s_result s_schema (translate_terminal b' i' t' r')
      | _, _, _, _ => bad_input
      end
  | _ => bad_input
  end.

(* c03.expected: (backend, terminal, row) -> (names, tree) : the property's right-hand side *)
Definition run_expected (s : sexp) : sexp :=
  match s with
  | SList [b; t; r] =>
      match d_backend b, d_terminal t, d_row r with
      | Some b', Some t', Some r' => SList [s_strs (expected_names t' r'); SAtom (expected_tree b' t')]
      | _, _, _ => bad_input
      end
  | _ => bad_input
  end.
