(* C11 - injected C++ applied hygienically at every call site.
   Executable model of
     - Python's re.sub for the two pattern shapes /repo uses (\bNAME\b with a string template,
       \b(?:N1|...|Nk)\b with a function replacement), on byte strings, word characters [A-Za-z0-9_];
     - the replacement-template language of re (re/_parser.py: parse_template), because the unfixed
       code passes C++ text as the template;
     - func_adl_xAOD/common/cpp_ast.py: replace_whole_words, build_CPPCodeValue, process_ast_node,
       cpp_ast_finder;  common/cpp_vars.py: unique_name;  common/statement.py: arbitrary_statement,
       set_var (no-conversion case), block.emit;
     - the specification of the property: tokenise into maximal word / non-word runs, map
       parameter tokens through the argument map, concatenate.
   No proofs here. *)
From FV Require Import Base.Prelude.

(* ------------------------------------------------------------------------------------------ *)
(* characters                                                                                   *)
(* ------------------------------------------------------------------------------------------ *)
Definition in_range (lo hi : nat) (c : ascii) : bool :=
  let n := nat_of_ascii c in (lo <=? n)%nat && (n <=? hi)%nat.
Definition is_dig (c : ascii) : bool := in_range 48 57 c.
Definition is_oct (c : ascii) : bool := in_range 48 55 c.
Definition is_letter (c : ascii) : bool := in_range 65 90 c || in_range 97 122 c.
(* \w of Python's re on ASCII text *)
Definition is_word (c : ascii) : bool := is_letter c || is_dig c || Ascii.eqb c "_"%char.

Definition head_word (s : string) : bool :=
  match s with String c _ => is_word c | EmptyString => false end.
Fixpoint drop (n : nat) (s : string) : string :=
  match n, s with
  | O, _ => s
  | S k, String _ r => drop k r
  | S _, EmptyString => EmptyString
  end.
(* is the last character of [p] a word character ([pw] when [p] is empty) *)
Fixpoint last_word (pw : bool) (p : string) : bool :=
  match p with EmptyString => pw | String c r => last_word (is_word c) r end.
Fixpoint all_chars (f : ascii -> bool) (s : string) : bool :=
  match s with EmptyString => true | String c r => f c && all_chars f r end.

(* a formal parameter name the property speaks about: non-empty, word characters only
   (Python / C++ identifiers are of this shape; a leading digit is harmless for the theorems) *)
Definition ident (s : string) : bool :=
  match s with EmptyString => false | String _ _ => all_chars is_word s end.

(* ------------------------------------------------------------------------------------------ *)
(* re.sub, pattern \b(?:p1|...|pk)\b  (k = 1 is \bp\b), replacement text already computed       *)
(* ------------------------------------------------------------------------------------------ *)
(* \b p \b matches at the current position: [pw] = previous character is a word character,
   [s] = rest of the subject *)
Definition match_at (pw : bool) (p s : string) : bool :=
  xorb pw (head_word s) && String.prefix p s
  && xorb (last_word pw p) (head_word (drop (String.length p) s)).

Definition is_empty (s : string) : bool := match s with EmptyString => true | _ => false end.

(* first alternative (regex alternation is ordered) that lets the whole pattern match here;
   [adv] = sre's must_advance: an empty match is not acceptable *)
Fixpoint first_alt (adv : bool) (alts : list (string * string)) (pw : bool) (s : string)
  : option (string * string) :=
  match alts with
  | [] => None
  | (p, d) :: r =>
      if negb (adv && is_empty p) && match_at pw p s then Some (p, d) else first_alt adv r pw s
  end.

(* the scan of pattern.sub: leftmost match, replaced, continue behind it; an empty match is followed
   by a search that must advance.  [skip] = characters of the current match still to be consumed. *)
Fixpoint sub_go (alts : list (string * string)) (pw : bool) (skip : nat) (s : string) : string :=
  match s with
  | EmptyString =>
      match skip with
      | O => match first_alt false alts pw EmptyString with Some (_, d) => d | None => EmptyString end
      | S _ => EmptyString
      end
  | String c r =>
      match skip with
      | S k => sub_go alts (is_word c) k r
      | O =>
          match first_alt false alts pw s with
          | Some (String _ p', d) => d +++ sub_go alts (is_word c) (String.length p') r
          | Some (EmptyString, d) =>
              d +++ match first_alt true alts pw s with
                    | Some (String _ p', d') => d' +++ sub_go alts (is_word c) (String.length p') r
                    | _ => String c (sub_go alts (is_word c) O r)
                    end
          | None => String c (sub_go alts (is_word c) O r)
          end
      end
  end.

Definition re_sub_alts (alts : list (string * string)) (s : string) : string := sub_go alts false O s.

(* ------------------------------------------------------------------------------------------ *)
(* replacement templates (re/_parser.py: parse_template, pattern without groups)                *)
(* ------------------------------------------------------------------------------------------ *)
Inductive titem := TLit (c : ascii) | TWhole.      (* literal character | \g<0> *)
Definition re_error : err := ErrOther "error".      (* re.error; its class is called "error" *)

Definition bs : ascii := "\"%char.
Definition oct_val (c : ascii) : nat := nat_of_ascii c - 48.

(* the name of \g<name>: everything before the first '>' ; None when there is no '>' *)
Fixpoint until_gt (s : string) : option string :=
  match s with
  | EmptyString => None
  | String c r => if Ascii.eqb c ">"%char then Some EmptyString
                  else option_map (String c) (until_gt r)
  end.
Definition is_identifier (s : string) : bool :=
  match s with
  | EmptyString => false
  | String c r => (is_letter c || Ascii.eqb c "_"%char) && all_chars is_word r
  end.
Definition is_zero (c : ascii) : bool := Ascii.eqb c "0"%char.

Definition simple_escape (e : ascii) : option ascii :=
  if Ascii.eqb e "a"%char then Some (ascii_of_nat 7)
  else if Ascii.eqb e "b"%char then Some (ascii_of_nat 8)
  else if Ascii.eqb e "f"%char then Some (ascii_of_nat 12)
  else if Ascii.eqb e "n"%char then Some (ascii_of_nat 10)
  else if Ascii.eqb e "r"%char then Some (ascii_of_nat 13)
  else if Ascii.eqb e "t"%char then Some (ascii_of_nat 9)
  else if Ascii.eqb e "v"%char then Some (ascii_of_nat 11)
  else if Ascii.eqb e bs then Some bs
  else None.

(* one escape: [e] is the character behind the backslash, [r] the text behind [e].
   Result: the items and how many characters of [r] were consumed. *)
Definition escape_step (e : ascii) (r : string) : result (list titem * nat) :=
  if Ascii.eqb e "g"%char then
    match r with
    | String lt r2 =>
        if Ascii.eqb lt "<"%char then
          match until_gt r2 with
          | None => Error re_error                                   (* missing >, or missing group name *)
          | Some name =>
              if is_empty name then Error re_error                    (* missing group name *)
              else if all_chars is_dig name then
                if all_chars is_zero name then OK ([TWhole], 2 + String.length name)
                else Error re_error                                   (* invalid group reference *)
              else if is_identifier name then
                (* unknown group name -> IndexError; but the tokenizer reads one token ahead, so a lone
                   backslash right behind '>' at the very end of the template is reported first *)
                if String.eqb (drop (S (String.length name)) r2) (String bs EmptyString)
                then Error re_error else Error ErrIndex
              else Error re_error                                     (* bad character in group name *)
          end
        else Error re_error                                           (* missing < *)
    | EmptyString => Error re_error
    end
  else if is_zero e then
    match r with
    | String d1 r2 =>
        if is_oct d1 then
          match r2 with
          | String d2 _ =>
              if is_oct d2 then OK ([TLit (ascii_of_nat (oct_val d1 * 8 + oct_val d2))], 2)
              else OK ([TLit (ascii_of_nat (oct_val d1))], 1)
          | EmptyString => OK ([TLit (ascii_of_nat (oct_val d1))], 1)
          end
        else OK ([TLit zero], 0)
    | EmptyString => OK ([TLit zero], 0)
    end
  else if is_dig e then
    match r with
    | String d1 (String d2 _) =>
        if is_dig d1 && is_oct e && is_oct d1 && is_oct d2 then
          let v := oct_val e * 64 + oct_val d1 * 8 + oct_val d2 in
          if (v <=? 255)%nat then OK ([TLit (ascii_of_nat v)], 2) else Error re_error
        else Error re_error                                           (* invalid group reference *)
    | _ => Error re_error
    end
  else
    match simple_escape e with
    | Some c => OK ([TLit c], 0)
    | None => if is_letter e then Error re_error                      (* bad escape *)
              else OK ([TLit bs; TLit e], 0)
    end.

Fixpoint tparse (skip : nat) (s : string) : result (list titem) :=
  match s with
  | EmptyString => OK []
  | String c r =>
      match skip with
      | S k => tparse k r
      | O =>
          if Ascii.eqb c bs then
            match r with
            | EmptyString => Error re_error                           (* bad escape (end of pattern) *)
            | String e r' =>
                match escape_step e r' with
                | Error x => Error x
                | OK (items, n) =>
                    match tparse (S n) r with
                    | Error x => Error x
                    | OK rest => OK (items ++ rest)
                    end
                end
            end
          else match tparse O r with Error x => Error x | OK rest => OK (TLit c :: rest) end
      end
  end.

Fixpoint expand (items : list titem) (whole : string) : string :=
  match items with
  | [] => EmptyString
  | TLit c :: r => String c (expand r whole)
  | TWhole :: r => whole +++ expand r whole
  end.

(* re.sub(r"\b" + re.escape(p) + r"\b", repl, s) with a *string* repl *)
Definition re_sub_template (p repl s : string) : result string :=
  match tparse O repl with
  | Error x => Error x
  | OK items => OK (re_sub_alts [(p, expand items p)] s)
  end.

(* ------------------------------------------------------------------------------------------ *)
(* cpp_ast.py                                                                                   *)
(* ------------------------------------------------------------------------------------------ *)
(* mirrors cpp_ast.py: replace_whole_words -- lookup.setdefault(src, dest) in list order *)
Fixpoint has_key (k : string) (l : list (string * string)) : bool :=
  match l with [] => false | (k', _) :: r => if String.eqb k k' then true else has_key k r end.
Fixpoint build_lookup (rl acc : list (string * string)) : list (string * string) :=
  match rl with
  | [] => acc
  | (src, dest) :: r => if has_key src acc then build_lookup r acc else build_lookup r (acc ++ [(src, dest)])
  end.
Definition impl_subst (rl : list (string * string)) (line : string) : string :=
  match build_lookup rl [] with
  | [] => line
  | lookup => re_sub_alts lookup line
  end.

(* the loop of the unfixed code:  for src, dest in repl_list: l_s = re.sub(rf"\b{re.escape(src)}\b", str(dest), l_s) *)
Fixpoint seq_subst (rl : list (string * string)) (line : string) : result string :=
  match rl with
  | [] => OK line
  | (src, dest) :: r =>
      match re_sub_template src dest line with
      | Error x => Error x
      | OK l => seq_subst r l
      end
  end.

(* ---------- specification of the property ---------- *)
(* maximal runs of word / non-word characters, in order *)
Fixpoint tokenise (s : string) : list string :=
  match s with
  | EmptyString => []
  | String c r =>
      match tokenise r with
      | [] => [String c EmptyString]
      | t :: ts => if Bool.eqb (is_word c) (head_word t) then String c t :: ts
                   else String c EmptyString :: t :: ts
      end
  end.
Fixpoint assoc (k : string) (l : list (string * string)) : option string :=
  match l with [] => None | (k', v) :: r => if String.eqb k k' then Some v else assoc k r end.
Definition map_token (m : list (string * string)) (t : string) : string :=
  match assoc t m with Some d => d | None => t end.
Definition spec_subst (m : list (string * string)) (line : string) : string :=
  concat_str (map (map_token m) (tokenise line)).

(* ---------- types, values ---------- *)
(* mirrors cpp_types.py: CPPParsedTypeInfo / terminal.__str__ / collection(terminal(t)) *)
Record ctype := { ct_name : string; ct_pdepth : nat; ct_const : bool }.
Fixpoint stars (n : nat) : string := match n with O => EmptyString | S k => String "*"%char (stars k) end.
Definition ctype_str (t : ctype) : string :=
  (if ct_const t then "const " else "") +++ ct_name t +++ stars (ct_pdepth t).
Definition result_type_str (t : ctype) (is_coll : bool) : string :=
  if is_coll then "std::vector<" +++ ctype_str t +++ ">" else ctype_str t.

(* mirrors cpp_ast.py: CPPCodeSpecification *)
Record cpp_spec := {
  sp_name : string; sp_includes : list string; sp_args : list string; sp_code : list string;
  sp_result : string; sp_rtype : ctype; sp_is_coll : bool; sp_method_obj : option string }.

(* mirrors cpp_ast.py: CPPCodeValue (result_rep = base name for unique_name + rendered type) *)
Record cpp_value := {
  cv_includes : list string; cv_libs : list string; cv_args : list string; cv_code : list string;
  cv_result : string; cv_rname : string; cv_rtype : string;
  cv_instance : option (string * string);                  (* replacement_instance_obj *)
  cv_fields : list ((string * string) * string) }.          (* ((type, member name), initialisation text) *)

(* how the call is written: f(...) or r.f(...) with r a plain name *)
Inductive call_style := StyleFunc | StyleMethod (receiver : string).

(* mirrors cpp_ast.py: build_CPPCodeValue *)
Definition build_value (sp : cpp_spec) (style : call_style) (nargs : nat) : result cpp_value :=
  if negb (Nat.eqb nargs (List.length (sp_args sp))) then Error ErrValue
  else
    let mk inst := {| cv_includes := sp_includes sp; cv_libs := []; cv_args := sp_args sp;
                      cv_code := sp_code sp; cv_result := sp_result sp; cv_rname := sp_name sp;
                      cv_rtype := result_type_str (sp_rtype sp) (sp_is_coll sp);
                      cv_instance := inst; cv_fields := [] |} in
    match style, sp_method_obj sp with
    | StyleMethod _, None => Error ErrValue
    | StyleFunc, Some _ => Error ErrValue
    | StyleFunc, None => OK (mk None)
    | StyleMethod r, Some mo => OK (mk (Some (mo, r)))
    end.

(* mirrors cpp_vars.py: unique_name (is_class_var = False) *)
Definition unique_name (base : string) (counter : nat) : string := base +++ dec_nat counter.

(* mirrors generated_code.add_include / add_link_library, applied to a list *)
Fixpoint add_unique (xs : list string) (have : list string) : list string :=
  match xs with [] => have | x :: r => add_unique r (if mem_str x have then have else have ++ [x]) end.

(* mirrors statement.py: arbitrary_statement.emit *)
Fixpoint ends_semicolon (s : string) : bool :=
  match s with
  | EmptyString => false
  | String c EmptyString => Ascii.eqb c ";"%char
  | String _ r => ends_semicolon r
  end.
Definition arbitrary_statement (l : string) : string := if ends_semicolon l then l else l +++ ";".
(* mirrors statement.py: set_var.emit when target and value have the same type (always so here) *)
Definition set_var_line (target value : string) : string := target +++ " = " +++ value +++ ";".

(* what one call of process_ast_node adds to the generated code *)
Record emitted := {
  em_decl : string * string;             (* (type, name) declared in the scope current at the call *)
  em_includes : list string;             (* include list afterwards *)
  em_libs : list string;                 (* link-library list afterwards *)
  em_block : list string;                (* the statements of the new block, in order *)
  em_class_vars : list (string * string);(* class members declared (fields) *)
  em_book : list string;                 (* statements added to the booking code (fields) *)
  em_result : string;                    (* C++ text of the returned representation *)
  em_counter : nat }.                    (* unique_var_index afterwards *)

Fixpoint map_result {A B} (f : A -> result B) (l : list A) : result (list B) :=
  match l with
  | [] => OK []
  | x :: r => match f x with
              | Error e => Error e
              | OK y => match map_result f r with Error e => Error e | OK ys => OK (y :: ys) end
              end
  end.

(* mirrors cpp_ast.py: process_ast_node.  [subst] is the substitution routine (fixed or unfixed code);
   [recv] the C++ of the resolved receiver, [arg_reps] the C++ of the actual arguments (already
   evaluated by visitor.get_rep), [counter] = unique_var_index, [incs]/[libs] the lists so far. *)
Definition process_node_with (subst : list (string * string) -> string -> result string)
    (cv : cpp_value) (recv : string) (arg_reps : list string) (counter : nat) (incs libs : list string)
  : result emitted :=
  let rvar := unique_name (cv_rname cv) counter in
  let repl_list :=
    (match cv_instance cv with Some (mo, _) => [(mo, recv)] | None => [] end)
    ++ combine (cv_args cv) arg_reps in                              (* zip truncates *)
  match map_result (subst repl_list) (cv_code cv) with
  | Error e => Error e
  | OK lines =>
      match map_result (fun f : (string * string) * string => subst repl_list (snd f)) (cv_fields cv) with
      | Error e => Error e
      | OK inits =>
          OK {| em_decl := (cv_rtype cv, rvar);
                em_includes := add_unique (cv_includes cv) incs;
                em_libs := add_unique (cv_libs cv) libs;
                em_block := map arbitrary_statement lines ++ [set_var_line rvar (cv_result cv)];
                em_class_vars := map fst (cv_fields cv);
                em_book := map (fun p : ((string * string) * string) * string =>
                                  set_var_line (snd (fst (fst p))) (snd p))
                               (combine (cv_fields cv) inits);
                em_result := rvar;
                em_counter := S counter |}
      end
  end.

Definition process_node := process_node_with (fun rl l => OK (impl_subst rl l)).
Definition process_node_seq := process_node_with seq_subst.

(* mirrors statement.py: block.emit for the enclosing scope after one call: declaration on top,
   then the injected block *)
Definition render_call (e : emitted) : list string :=
  ["{"; fst (em_decl e) +++ " " +++ snd (em_decl e) +++ ";"; "{"] ++ em_block e ++ ["}"; "}"].

(* ---------- cpp_ast_finder on a small expression tree ---------- *)
Inductive qexpr :=
| QName (id : string)
| QLeaf (text : string)                         (* a node without sub-expressions (constant, ...) *)
| QAttr (value : qexpr) (attr : string)
| QCall (func : qexpr) (args : list qexpr)
| QCpp (cv : cpp_value) (args : list qexpr)     (* Call node whose func has become a CPPCodeValue *)
| QNode (tag : string) (children : list qexpr). (* any other node; visited generically *)

Fixpoint find_spec (name : string) (tbl : list (string * cpp_spec)) : option cpp_spec :=
  match tbl with [] => None | (n, sp) :: r => if String.eqb name n then Some sp else find_spec name r end.

(* mirrors cpp_ast.py: cpp_ast_finder.visit_Call / generic_visit (func first, then args) *)
Fixpoint finder (tbl : list (string * cpp_spec)) (e : qexpr) : result qexpr :=
  let fix go (l : list qexpr) : result (list qexpr) :=
    match l with
    | [] => OK []
    | x :: r => match finder tbl x with
                | Error err => Error err
                | OK x' => match go r with Error err => Error err | OK r' => OK (x' :: r') end
                end
    end in
  match e with
  | QName id => OK (QName id)
  | QLeaf t => OK (QLeaf t)
  | QAttr v a => match finder tbl v with Error err => Error err | OK v' => OK (QAttr v' a) end
  | QCpp cv args => match go args with Error err => Error err | OK args' => OK (QCpp cv args') end
  | QNode t ch => match go ch with Error err => Error err | OK ch' => OK (QNode t ch') end
  | QCall f args =>
      match finder tbl f with
      | Error err => Error err
      | OK f' =>
          match go args with
          | Error err => Error err
          | OK args' =>
              let try_call name style :=
                match find_spec name tbl with
                | Some sp => match build_value sp style (List.length args') with
                             | Error err => Error err
                             | OK cv => OK (QCpp cv args')
                             end
                | None => OK (QCall f' args')
                end in
              match f' with
              | QAttr (QName r) attr => try_call attr (StyleMethod r)
              | QName id => try_call id StyleFunc
              | _ => OK (QCall f' args')
              end
          end
      end
  end.

(* ------------------------------------------------------------------------------------------ *)
(* wire format                                                                                  *)
(* ------------------------------------------------------------------------------------------ *)
Definition d_pair (s : sexp) : option (string * string) :=
  match s with SList [SAtom a; SAtom b] => Some (a, b) | _ => None end.
Definition d_pairs (s : sexp) : option (list (string * string)) :=
  match s with SList l => d_list d_pair l | _ => None end.
Definition s_pair (p : string * string) : sexp := SList [SAtom (fst p); SAtom (snd p)].

(* (pattern-name template subject) *)
Definition run_resub (s : sexp) : sexp :=
  match s with
  | SList [SAtom p; SAtom repl; SAtom subj] => s_result s_str (re_sub_template p repl subj)
  | _ => bad_input
  end.
(* (pairs line) -> fixed code / unfixed code / specification *)
Definition run_subst (s : sexp) : sexp :=
  match s with
  | SList [rl; SAtom line] =>
      match d_pairs rl with Some l => s_tag "ok" [SAtom (impl_subst l line)] | None => bad_input end
  | _ => bad_input
  end.
Definition run_seq (s : sexp) : sexp :=
  match s with
  | SList [rl; SAtom line] =>
      match d_pairs rl with Some l => s_result s_str (seq_subst l line) | None => bad_input end
  | _ => bad_input
  end.
Definition run_spec (s : sexp) : sexp :=
  match s with
  | SList [rl; SAtom line] =>
      match d_pairs rl with Some l => s_tag "ok" [SAtom (spec_subst l line)] | None => bad_input end
  | _ => bad_input
  end.
Definition run_tokens (s : sexp) : sexp :=
  match s with SAtom l => s_strs (tokenise l) | _ => bad_input end.

(* spec = (name includes args code result (tname pdepth const) is_coll method_obj-or-()) *)
Definition d_opt_str (s : sexp) : option (option string) :=
  match s with SList [] => Some None | SList [SAtom a] => Some (Some a) | _ => None end.
Definition d_ctype (s : sexp) : option ctype :=
  match s with
  | SList [SAtom n; pd; c] =>
      match d_nat pd, d_bool c with
      | Some pd', Some c' => Some {| ct_name := n; ct_pdepth := pd'; ct_const := c' |}
      | _, _ => None
      end
  | _ => None
  end.
Definition d_spec (s : sexp) : option cpp_spec :=
  match s with
  | SList [SAtom n; incs; args; code; SAtom res; ty; coll; mo] =>
      match d_strs incs, d_strs args, d_strs code, d_ctype ty, d_bool coll, d_opt_str mo with
      | Some i, Some a, Some c, Some t, Some k, Some m =>
          Some {| sp_name := n; sp_includes := i; sp_args := a; sp_code := c; sp_result := res;
                  sp_rtype := t; sp_is_coll := k; sp_method_obj := m |}
      | _, _, _, _, _, _ => None
      end
  | _ => None
  end.
Definition d_style (s : sexp) : option call_style :=
  match s with
  | SList [SAtom "func"] => Some StyleFunc
  | SList [SAtom "method"; SAtom r] => Some (StyleMethod r)
  | _ => None
  end.
Definition d_field (s : sexp) : option ((string * string) * string) :=
  match s with SList [SAtom t; SAtom n; SAtom i] => Some ((t, n), i) | _ => None end.

Definition s_emitted (e : emitted) : sexp :=
  SList [s_pair (em_decl e); s_strs (em_includes e); s_strs (em_libs e); s_strs (em_block e);
         SList (map s_pair (em_class_vars e)); s_strs (em_book e); SAtom (em_result e);
         s_nat (em_counter e); s_strs (render_call e)].

(* (which spec style recv arg_reps counter incs libs fields link_libs):
   build_CPPCodeValue followed by process_ast_node; which = "fixed" | "seq" *)
Definition run_call (s : sexp) : sexp :=
  match s with
  | SList [SAtom which; sp; st; SAtom recv; reps; cnt; incs; libs; flds; llibs] =>
      match d_spec sp, d_style st, d_strs reps, d_nat cnt, d_strs incs, d_strs libs,
            (match flds with SList l => d_list d_field l | _ => None end), d_strs llibs with
      | Some sp', Some st', Some reps', Some cnt', Some incs', Some libs', Some flds', Some llibs' =>
          match build_value sp' st' (List.length reps') with
          | Error e => s_err e
          | OK cv =>
              let cv' := {| cv_includes := cv_includes cv; cv_libs := llibs'; cv_args := cv_args cv;
                            cv_code := cv_code cv; cv_result := cv_result cv; cv_rname := cv_rname cv;
                            cv_rtype := cv_rtype cv; cv_instance := cv_instance cv; cv_fields := flds' |} in
              s_result s_emitted
                ((if String.eqb which "seq" then process_node_seq else process_node)
                   cv' recv reps' cnt' incs' libs')
          end
      | _, _, _, _, _, _, _, _ => bad_input
      end
  | _ => bad_input
  end.

(* expression trees: (name id) (leaf t) (attr e a) (call f (args)) (node tag (children)) ;
   result: the same with (cpp result-name (method-object receiver)|() (args)) for replaced calls *)
Fixpoint d_qexpr (fuel : nat) (s : sexp) : option qexpr :=
  match fuel with
  | O => None
  | S f =>
      let fix go (l : list sexp) : option (list qexpr) :=
        match l with
        | [] => Some []
        | x :: r => match d_qexpr f x, go r with Some a, Some b => Some (a :: b) | _, _ => None end
        end in
      match s with
      | SList [SAtom "name"; SAtom i] => Some (QName i)
      | SList [SAtom "leaf"; SAtom t] => Some (QLeaf t)
      | SList [SAtom "attr"; e; SAtom a] => option_map (fun v => QAttr v a) (d_qexpr f e)
      | SList [SAtom "call"; fn; SList args] =>
          match d_qexpr f fn, go args with Some a, Some b => Some (QCall a b) | _, _ => None end
      | SList [SAtom "node"; SAtom t; SList ch] => option_map (QNode t) (go ch)
      | _ => None
      end
  end.
Fixpoint s_qexpr (e : qexpr) : sexp :=
  match e with
  | QName i => SList [SAtom "name"; SAtom i]
  | QLeaf t => SList [SAtom "leaf"; SAtom t]
  | QAttr v a => SList [SAtom "attr"; s_qexpr v; SAtom a]
  | QCall f args => SList [SAtom "call"; s_qexpr f; SList (map s_qexpr args)]
  | QCpp cv args =>
      SList [SAtom "cpp"; SAtom (cv_result cv);
             match cv_instance cv with Some (mo, r) => SList [SAtom mo; SAtom r] | None => SList [] end;
             SList (map s_qexpr args)]
  | QNode t ch => SList [SAtom "node"; SAtom t; SList (map s_qexpr ch)]
  end.
Fixpoint sexp_depth (s : sexp) : nat :=
  match s with
  | SAtom _ => 1
  | SList l => S (fold_right (fun x acc => Nat.max (sexp_depth x) acc) 0 l)
  end.
Definition d_tbl_entry (s : sexp) : option (string * cpp_spec) :=
  match s with SList [SAtom n; sp] => option_map (fun x => (n, x)) (d_spec sp) | _ => None end.
(* (table expr) *)
Definition run_finder (s : sexp) : sexp :=
  match s with
  | SList [SList tbl; e] =>
      match d_list d_tbl_entry tbl, d_qexpr (S (sexp_depth e)) e with
      | Some t, Some q => s_result s_qexpr (finder t q)
      | _, _ => bad_input
      end
  | _ => bad_input
  end.
