(* C04: the lowerings of the translator that decide WHEN code runs - short-circuit and/or, the conditional
   expression, Where, First, indexing, the CMS isNonnull guard - as Gallina SCHEMAS that build IR fragments
   exactly as ast_to_cpp_translator.py does, parametrised by arbitrary sub-fragments (so the theorems of
   Proofs/LoweringProofs.v hold for any nesting), and RECOGNISERS that find each bool_opN / if_else_resultN /
   is_firstN / is_non_nullN variable in the implementation's parsed program and check that the statements
   around it are an instance of the corresponding schema.
   Executable definitions only; no proofs here. *)
From FV Require Import Base.Prelude Cpp.IR Cpp.Exec.

(* ---------- statement-list helpers ---------- *)
Fixpoint app_stmts (a b : stmts) : stmts :=
  match a with SNil => b | SCons s r => SCons s (app_stmts r b) end.
Definition snoc_stmts (a : stmts) (s : stmt) : stmts := app_stmts a (SCons s SNil).
Definition one_stmt (s : stmt) : stmts := SCons s SNil.

(* ================================================================================================ *)
(* schemas                                                                                           *)
(* ================================================================================================ *)

(* mirrors ast_to_cpp_translator.py: query_ast_visitor.visit_BoolOp (1004-1040)
     result = cpp_variable(unique_name("bool_op"), current_scope, bool); declare_variable(result)   -> bo_decl
     check = result            (And)   |   !result    (Or)                                           -> bo_check
     scope = current_scope()
     for v in values:
        if not first: add_statement(iftest(check))          -- opens a block in the CURRENT scope
        rep_v = get_rep(v)                                  -- code of operand k lands wherever the cursor is
        add_statement(set_var(result, rep_v))
        if not first: set_scope(scope)                      -- back to the OUTER scope: the ifs are SEQUENTIAL,
                                                               not nested, for 3+ operands
   An operand block is arbitrary: its declarations, its code and the place of the assignment inside it are
   whatever the operand's own lowering produced (bo_operand is the common shape: code then res = v). *)
Definition bo_decl (res : string) : decl := {| d_type := "bool"; d_name := res; d_init := None |}.
Definition bo_check (is_and : bool) (res : string) : cexp :=
  if is_and then CVar res else CNot (CVar res).
Definition bo_operand (res : string) (ds : list decl) (code : stmts) (v : cexp) : block :=
  Blk ds (snoc_stmts code (SSet res None v)).
Fixpoint bo_tail (is_and : bool) (res : string) (ops : list block) : stmts :=
  match ops with
  | [] => SNil
  | b :: r => SCons (SIf (bo_check is_and res) b None) (bo_tail is_and res r)
  end.
(* the first operand's code and assignment are emitted in the current block, unguarded *)
Definition bo_first (res : string) (code1 : stmts) (v1 : cexp) : stmts :=
  snoc_stmts code1 (SSet res None v1).
Definition bo_lower (is_and : bool) (res : string) (code1 : stmts) (v1 : cexp) (ops : list block) : stmts :=
  app_stmts (bo_first res code1 v1) (bo_tail is_and res ops).

(* mirrors ast_to_cpp_translator.py: query_ast_visitor.visit_IfExp (955-987)
     result = cpp_variable(unique_name("if_else_result"), current_scope, double); declare_variable   -> ie_decl
     test_expr = get_rep(node.test)                       -- code of the test, in the current block
     add_statement(iftest(test_expr))
     add_statement(set_var(result, get_rep(node.body)))   -- code of body inside the if block
     set_scope(if_scope); pop_scope(); add_statement(elsephrase())
     add_statement(set_var(result, get_rep(node.orelse)))
     set_scope(current_scope) *)
Definition ie_decl (res : string) : decl := {| d_type := "double"; d_name := res; d_init := None |}.
Definition ie_arm (res : string) (ds : list decl) (code : stmts) (v : cexp) : block :=
  Blk ds (snoc_stmts code (SSet res None v)).
Definition ie_lower (test_code : stmts) (test : cexp) (bT bE : block) : stmts :=
  snoc_stmts test_code (SIf test bT (Some bE)).

(* mirrors ast_to_cpp_translator.py: query_ast_visitor.call_Where (1331-1367)
     rep = get_rep(filter(seq value))       -- code of the predicate at the sequence's scope
     add_statement(iftest(rep))             -- everything downstream is emitted inside this block *)
Definition wh_lower (pred_code : stmts) (pred : cexp) (downstream : block) : stmts :=
  snoc_stmts pred_code (SIf pred downstream None).

(* mirrors ast_to_cpp_translator.py: query_ast_visitor.call_First (1431-1502)
     is_first = cpp_variable(unique_name("is_first"), outside_block_scope, bool, initial_value=true)
     outside_block_scope.declare_variable(is_first)                                -> fi_decl (in the block enclosing the loop)
     s = iftest(is_first); s.add_statement(set_var(is_first, false))               -> fi_capture (at the sequence's scope,
     set_scope(sequence value's scope); add_statement(s)                              inside the loop, under its Where guards)
     fail = iftest(is_first); fail.add_statement(throw ...)
     outside_block_scope.frame_statements(-1).add_statement(fail)                  -> fi_throw (after the loop, declaring block)
   Everything downstream of First (the capture) is emitted inside the if (is_first) block. *)
Definition fi_decl (isf : string) : decl := {| d_type := "bool"; d_name := isf; d_init := Some (CBool true) |}.
Definition fi_capture (isf : string) (ds : list decl) (downstream : stmts) : stmt :=
  SIf (CVar isf) (Blk ds (SCons (SSet isf None (CBool false)) downstream)) None.
Definition fi_throw (isf : string) (line : string) : stmt :=
  SIf (CVar isf) (Blk [] (one_stmt (SThrow line))) None.
(* per-element guards (the Where predicates between the collection and First): nested ifs *)
Fixpoint fi_guards (conds : list cexp) (inner : stmt) : stmt :=
  match conds with
  | [] => inner
  | c :: r => SIf c (Blk [] (one_stmt (fi_guards r inner))) None
  end.
Definition fi_body (isf : string) (conds : list cexp) (ds : list decl) (downstream : stmts) : block :=
  Blk [] (one_stmt (fi_guards conds (fi_capture isf ds downstream))).
(* loop + throw-if, for ANY loop body *)
Definition fi_lower (isf x : string) (coll : cexp) (body : block) (line : string) : stmts :=
  SCons (SFor x coll body) (one_stmt (fi_throw isf line)).

(* mirrors ast_to_cpp_translator.py: query_ast_visitor.visit_Subscript (830-837):  v.at(i) / v->at(i) *)
Definition sub_lower (v : cexp) (arrow : bool) (i : cexp) : cexp := CMeth v arrow "at" (CCons i CNil).

(* mirrors cms/aod/cms_functions.py: isNonnullAst + its use as a guard (and / conditional / Where):
   the flag is computed by an injected block, the guarded code sits in an if on the flag *)
Definition ng_lower (nonnull : string) (guarded : block) : stmt := SIf (CVar nonnull) guarded None.

(* reference notions the theorems are stated against *)
Definition first_passing (p : value -> bool) (l : list value) : option value :=
  match filter p l with [] => None | w :: _ => Some w end.
(* all conditions of a guard chain hold (evaluated left to right, stops at the first false one) *)
Fixpoint conds_true (ev : event) (st : state) (conds : list cexp) : res bool :=
  match conds with
  | [] => ROk true
  | c :: r => rdo v <- eval ev st c; rdo t <- truth v; if t then conds_true ev st r else ROk false
  end.

(* ================================================================================================ *)
(* recognisers                                                                                       *)
(* ================================================================================================ *)
Definition occ (x : string) (l : list string) : nat := List.length (filter (String.eqb x) l).
Definition exp_occ (x : string) (e : cexp) : nat := occ x (exp_vars e).
Definition opt_occ (x : string) (o : option string) : nat :=
  match o with Some y => occ x [y] | None => 0 end.
Fixpoint decls_occ (x : string) (ds : list decl) : nat :=
  match ds with
  | [] => 0
  | d :: r => occ x [d_name d] + match d_init d with Some e => exp_occ x e | None => 0 end + decls_occ x r
  end.

(* occurrences of identifier x anywhere in a statement (targets, binders, expressions, opaque idents) *)
Fixpoint stmt_occ (x : string) (s : stmt) : nat :=
  match s with
  | SSet y _ e => occ x [y] + exp_occ x e
  | SPush y _ e => occ x [y] + exp_occ x e
  | SClear y => occ x [y]
  | SFill _ => 0
  | SThrow _ => 0
  | SFetch _ target _ _ _ => occ x [target]
  | SIota v b => occ x [v; b]
  | SUser _ ids t => occ x ids + opt_occ x t
  | SLine _ ids => occ x ids
  | SFor y e b => occ x [y] + exp_occ x e + block_occ x b
  | SIf c b els => exp_occ x c + block_occ x b + match els with Some b2 => block_occ x b2 | None => 0 end
  | SBlk b => block_occ x b
  end
with block_occ (x : string) (b : block) : nat :=
  match b with Blk ds body => decls_occ x ds + stmts_occ x body end
with stmts_occ (x : string) (l : stmts) : nat :=
  match l with SNil => 0 | SCons s r => stmt_occ x s + stmts_occ x r end.

(* number of assignments x = ... anywhere inside *)
Fixpoint stmt_asg (x : string) (s : stmt) : nat :=
  match s with
  | SSet y _ _ => occ x [y]
  | SFor _ _ b => block_asg x b
  | SIf _ b els => block_asg x b + match els with Some b2 => block_asg x b2 | None => 0 end
  | SBlk b => block_asg x b
  | _ => 0
  end
with block_asg (x : string) (b : block) : nat :=
  match b with Blk _ body => stmts_asg x body end
with stmts_asg (x : string) (l : stmts) : nat :=
  match l with SNil => 0 | SCons s r => stmt_asg x s + stmts_asg x r end.

Inductive tri := TNone | TOk | TBad.
Definition tri_ok (t : tri) : bool := match t with TOk => true | _ => false end.
Definition is_none {A} (o : option A) : bool := match o with None => true | Some _ => false end.

(* the FIRST mention of res, walking in program order through loops / ifs / blocks whose headers do not
   mention res, is a plain assignment  res = v  with v not mentioning res *)
Fixpoint fa_stmt (res : string) (s : stmt) : tri :=
  if Nat.eqb (stmt_occ res s) 0 then TNone else
  match s with
  | SSet y None v => if String.eqb y res && Nat.eqb (exp_occ res v) 0 then TOk else TBad
  | SFor y e b => if Nat.eqb (occ res [y] + exp_occ res e) 0 then fa_block res b else TBad
  | SIf c b els =>
      if Nat.eqb (exp_occ res c) 0 then
        match fa_block res b with
        | TNone => match els with Some b2 => fa_block res b2 | None => TNone end
        | t => t
        end
      else TBad
  | SBlk b => fa_block res b
  | _ => TBad
  end
with fa_block (res : string) (b : block) : tri :=
  match b with Blk ds body => if Nat.eqb (decls_occ res ds) 0 then fa_stmts res body else TBad end
with fa_stmts (res : string) (l : stmts) : tri :=
  match l with
  | SNil => TNone
  | SCons s r => match fa_stmt res s with TNone => fa_stmts res r | t => t end
  end.

(* --- bool_op --- *)
Definition is_guard (pol : bool) (res : string) (c : cexp) : bool :=
  match c with
  | CVar y => pol && String.eqb y res
  | CNot (CVar y) => negb pol && String.eqb y res
  | _ => false
  end.
(* assignments to res that are NOT inside a well-formed operand guard  if (res) / if (!res) { ...; res = vk; }
   (an ill-formed guard block counts 2, so that the total can never be 1 by accident) *)
Fixpoint ug_stmt (pol : bool) (res : string) (s : stmt) : nat :=
  match s with
  | SSet y _ _ => occ res [y]
  | SFor _ _ b => ug_block pol res b
  | SIf c b els =>
      if is_guard pol res c && is_none els then
        if Nat.eqb (block_asg res b) 0 then 0                          (* a read: Where on the result *)
        else if Nat.eqb (block_asg res b) 1 && tri_ok (fa_block res b) then 0
        else 2
      else ug_block pol res b + match els with Some b2 => ug_block pol res b2 | None => 0 end
  | SBlk b => ug_block pol res b
  | _ => 0
  end
with ug_block (pol : bool) (res : string) (b : block) : nat :=
  match b with Blk _ body => ug_stmts pol res body end
with ug_stmts (pol : bool) (res : string) (l : stmts) : nat :=
  match l with SNil => 0 | SCons s r => ug_stmt pol res s + ug_stmts pol res r end.

Definition rec_bool_op (d : decl) (body : stmts) : bool :=
  let res := d_name d in
  String.eqb (d_type d) "bool" && is_none (d_init d)
  && tri_ok (fa_stmts res body)                                   (* written before any read, unguarded *)
  && Nat.leb 2 (stmts_asg res body)
  && (Nat.eqb (ug_stmts true res body) 1 || Nat.eqb (ug_stmts false res body) 1).
       (* every later assignment sits alone in its own guard on res, all guards of one polarity *)

(* --- if_else_result --- *)
Fixpoint ie_stmt (res : string) (s : stmt) : tri :=
  if Nat.eqb (stmt_occ res s) 0 then TNone else
  match s with
  | SIf c bT (Some bE) =>
      if Nat.eqb (exp_occ res c) 0 then
        if Nat.eqb (block_asg res bT) 1 && Nat.eqb (block_asg res bE) 1
           && Nat.eqb (block_occ res bT) 1 && Nat.eqb (block_occ res bE) 1 then TOk
        else match ie_block res bT with TNone => ie_block res bE | t => t end
      else TBad
  | SIf c b None => if Nat.eqb (exp_occ res c) 0 then ie_block res b else TBad
  | SFor y e b => if Nat.eqb (occ res [y] + exp_occ res e) 0 then ie_block res b else TBad
  | SBlk b => ie_block res b
  | _ => TBad
  end
with ie_block (res : string) (b : block) : tri :=
  match b with Blk ds body => if Nat.eqb (decls_occ res ds) 0 then ie_stmts res body else TBad end
with ie_stmts (res : string) (l : stmts) : tri :=
  match l with
  | SNil => TNone
  | SCons s r => match ie_stmt res s with TNone => ie_stmts res r | t => t end
  end.

Definition rec_if_else (d : decl) (body : stmts) : bool :=
  let res := d_name d in
  String.eqb (d_type d) "double" && is_none (d_init d)
  && tri_ok (ie_stmts res body)              (* first mention: if/else with exactly one assignment per arm *)
  && Nat.eqb (stmts_asg res body) 2.         (* and nothing else ever assigns it *)

(* --- is_first --- *)
Definition is_capture (isf : string) (s : stmt) : bool :=
  match s with
  | SIf (CVar y) (Blk ds (SCons (SSet z None (CBool false)) rest)) None =>
      String.eqb y isf && String.eqb z isf && Nat.eqb (decls_occ isf ds) 0 && Nat.eqb (stmts_occ isf rest) 0
  | _ => false
  end.
Definition is_throw_if (isf : string) (s : stmt) : bool :=
  match s with
  | SIf (CVar y) (Blk [] (SCons (SThrow _) SNil)) None => String.eqb y isf
  | _ => false
  end.
(* inside the loop: the first (and only) mention is the capture guard, under any nesting of ifs / loops *)
Fixpoint fc_stmt (isf : string) (s : stmt) : tri :=
  if Nat.eqb (stmt_occ isf s) 0 then TNone else
  if is_capture isf s then TOk else
  match s with
  | SFor y e b => if Nat.eqb (occ isf [y] + exp_occ isf e) 0 then fc_block isf b else TBad
  | SIf c b els =>
      if Nat.eqb (exp_occ isf c) 0 then
        match fc_block isf b with
        | TNone => match els with Some b2 => fc_block isf b2 | None => TNone end
        | t => t
        end
      else TBad
  | SBlk b => fc_block isf b
  | _ => TBad
  end
with fc_block (isf : string) (b : block) : tri :=
  match b with Blk ds body => if Nat.eqb (decls_occ isf ds) 0 then fc_stmts isf body else TBad end
with fc_stmts (isf : string) (l : stmts) : tri :=
  match l with
  | SNil => TNone
  | SCons s r => match fc_stmt isf s with TNone => fc_stmts isf r | t => t end
  end.

(* after the loop, in the SAME statement list: the next mention is the throw-if, and it is the last *)
Fixpoint fi_after_loop (isf : string) (l : stmts) : bool :=
  match l with
  | SNil => false
  | SCons s r =>
      if Nat.eqb (stmt_occ isf s) 0 then fi_after_loop isf r
      else is_throw_if isf s && Nat.eqb (stmts_occ isf r) 0
  end.
(* direct children of the declaring block: first mention is the loop (2 mentions inside: guard + reset) *)
Fixpoint fi_top (isf : string) (l : stmts) : bool :=
  match l with
  | SNil => false
  | SCons s r =>
      if Nat.eqb (stmt_occ isf s) 0 then fi_top isf r
      else match s with
           | SFor x e lb =>
               Nat.eqb (occ isf [x] + exp_occ isf e) 0 && Nat.eqb (block_occ isf lb) 2
               && tri_ok (fc_block isf lb) && fi_after_loop isf r
           | _ => false
           end
  end.
Definition is_true_lit (o : option cexp) : bool :=
  match o with Some (CBool true) => true | _ => false end.
Definition rec_is_first (d : decl) (body : stmts) : bool :=
  String.eqb (d_type d) "bool" && is_true_lit (d_init d) && fi_top (d_name d) body.

(* --- is_non_null (CMS) --- *)
Fixpoint nn_stmt (x : string) (s : stmt) : tri :=
  if Nat.eqb (stmt_occ x s) 0 then TNone else
  match s with
  | SUser _ ids (Some t) => if String.eqb t x && Nat.eqb (occ x ids) 0 then TOk else TBad
  | SFor y e b => if Nat.eqb (occ x [y] + exp_occ x e) 0 then nn_block x b else TBad
  | SIf c b els =>
      if Nat.eqb (exp_occ x c) 0 then
        match nn_block x b with
        | TNone => match els with Some b2 => nn_block x b2 | None => TNone end
        | t => t
        end
      else TBad
  | SBlk b => nn_block x b
  | _ => TBad
  end
with nn_block (x : string) (b : block) : tri :=
  match b with Blk ds body => if Nat.eqb (decls_occ x ds) 0 then nn_stmts x body else TBad end
with nn_stmts (x : string) (l : stmts) : tri :=
  match l with
  | SNil => TNone
  | SCons s r => match nn_stmt x s with TNone => nn_stmts x r | t => t end
  end.
Definition rec_non_null (d : decl) (body : stmts) : bool :=
  String.eqb (d_type d) "bool" && is_none (d_init d)
  && tri_ok (nn_stmts (d_name d) body) && Nat.eqb (stmts_asg (d_name d) body) 0.

(* --- the walk over the whole program: one verdict per lowering variable --- *)
Record verdict := { v_kind : string; v_name : string; v_ok : bool }.

Definition classify (d : decl) (body : stmts) : list verdict :=
  let n := d_name d in
  if prefix "bool_op" n then [{| v_kind := "bool_op"; v_name := n; v_ok := rec_bool_op d body |}]
  else if prefix "if_else_result" n then [{| v_kind := "if_else_result"; v_name := n; v_ok := rec_if_else d body |}]
  else if prefix "is_first" n then [{| v_kind := "is_first"; v_name := n; v_ok := rec_is_first d body |}]
  else if prefix "is_non_null" n then [{| v_kind := "is_non_null"; v_name := n; v_ok := rec_non_null d body |}]
  else [].

Fixpoint rec_stmt (s : stmt) : list verdict :=
  match s with
  | SFor _ _ b => rec_block b
  | SIf _ b els => rec_block b ++ match els with Some b2 => rec_block b2 | None => [] end
  | SBlk b => rec_block b
  | _ => []
  end
with rec_block (b : block) : list verdict :=
  match b with Blk ds body => flat_map (fun d => classify d body) ds ++ rec_stmts body end
with rec_stmts (l : stmts) : list verdict :=
  match l with SNil => [] | SCons s r => rec_stmt s ++ rec_stmts r end.

(* indexing: every subscript is the bounds-checked at(); count them (operator[] would be opaque text) *)
Fixpoint at_calls (e : cexp) : nat :=
  match e with
  | CBin _ a b => at_calls a + at_calls b
  | CUn _ a | CNot a | CDeref a | CCast _ a => at_calls a
  | CCall _ args => at_calls_args args
  | CMeth o _ m args => (if String.eqb m "at" then 1 else 0) + at_calls o + at_calls_args args
  | CField o _ _ => at_calls o
  | CSubI a b => at_calls a + at_calls b
  | _ => 0
  end
with at_calls_args (l : cexps) : nat :=
  match l with CNil => 0 | CCons e r => at_calls e + at_calls_args r end.

Definition decls_at (ds : list decl) : nat :=
  fold_right (fun d acc => match d_init d with Some e => at_calls e | None => 0 end + acc) 0 ds.
Fixpoint stmt_at (s : stmt) : nat :=
  match s with
  | SSet _ _ e | SPush _ _ e => at_calls e
  | SFor _ e b => at_calls e + block_at b
  | SIf c b els => at_calls c + block_at b + match els with Some b2 => block_at b2 | None => 0 end
  | SBlk b => block_at b
  | _ => 0
  end
with block_at (b : block) : nat := match b with Blk ds body => decls_at ds + stmts_at body end
with stmts_at (l : stmts) : nat := match l with SNil => 0 | SCons s r => stmt_at s + stmts_at r end.

(* ---------- wire ---------- *)
Definition s_verdict (v : verdict) : sexp :=
  SList [SAtom (v_kind v); SAtom (v_name v); s_bool (v_ok v)].

(* c04.recognise: block -> (verdicts, number of at() calls) *)
Definition run_recognise (s : sexp) : sexp :=
  match d_block s with
  | Some b => s_tag "ok" [SList (map s_verdict (rec_block b)); s_nat (block_at b)]
  | None => bad_input
  end.
