(* C16 - executable model of the bash subset used by the three runner.sh scripts, of an abstract file
   system, and of the tool table (the stub tools of tools/fv/shellbox.py implement the same table on
   the bash side).  No proofs here.  The scripts themselves are regenerated: gen/Runner_*.v.

   What is bash semantics here (validated against the real bash by the correspondence of c16.py):
   word expansion into fields, [ ] / [[ ]] tests, getopts, `set -e`, cd/echo/source/export/eval,
   here-documents and `>` redirections.  What is specification (the tool table): the effects of
   mkdir cp chmod rm (coreutils, lexical path resolution, no symlinks), cmake make python sudo
   mkedanlzr scram cmsRun root xrdcp and of the three sourced set-up files.  Every external command and
   every sourced set-up file is one *step*: it takes the next step index, is logged, and fails
   without effect when the fault oracle says so. *)
From FV Require Import Base.Prelude.

(* ---------- script syntax (target of tools/fv/translators/shell.py) ---------- *)
Inductive wpart := WLit (s : string) | WVar (quoted : bool) (v : string).
Definition word := list wpart.
Inductive test :=
| TFileF (w : word) | TFileE (w : word) | TFileD (w : word) | TStrZ (w : word)
| TEq (a b : word) | TNe (a b : word) | TPrefix (a : word) (p : string)
| TArgsLeft.                          (* [ $# != 0 ] *)

Inductive cmd :=
| CAssign (v : string) (w : word)
| CScriptDir (v : string)            (* v="$( cd "$( dirname "${BASH_SOURCE[0]}" )" >/dev/null 2>&1 && pwd )" *)
| CPwdTo (v : string)                (* v=`pwd` *)
| CSetE | CSetX | CShiftOpt          (* shift $((OPTIND-1)) *)
| CExit (n : nat)
| CEcho (ws : list word) (redir : option word)
| CCd (w : word)
| CSource (w : word)
| CExport (v : string) (w : word)
| CEval (v lit : string) (c : cmd)   (* v='lit' ; eval $v   where lit parses to c *)
| CHeredoc (target : word) (body : string)   (* cat > target << EOF *)
| CRun (ws : list word)
| CIf (b : branches) (e : cmds)
| CGetopts (optstring var : string) (a : arms)
with cmds := CNil | CCons (c : cmd) (r : cmds)
with branches := BNil | BCons (t : test) (b : cmds) (r : branches)
with arms := ANil | ACons (p : string) (b : cmds) (r : arms).
Fixpoint capp (a b : cmds) : cmds := match a with CNil => b | CCons c r => CCons c (capp r b) end.

(* ---------- strings and paths ---------- *)
Fixpoint prefix_strip (p s : string) : option string :=
  match p, s with
  | EmptyString, _ => Some s
  | String a p', String b s' => if Ascii.eqb a b then prefix_strip p' s' else None
  | _, _ => None
  end.
Fixpoint split_sub (sep s : string) : option (string * string) :=
  match prefix_strip sep s with
  | Some r => Some (EmptyString, r)
  | None =>
    match s with
    | EmptyString => None
    | String c s' => match split_sub sep s' with Some (a, b) => Some (String c a, b) | None => None end
    end
  end.
Fixpoint strip_suffix (suf s : string) : option string :=
  if String.eqb s suf then Some EmptyString
  else match s with
       | EmptyString => None
       | String c r => option_map (String c) (strip_suffix suf r)
       end.
Fixpoint ends_slash (s : string) : bool :=
  match s with
  | EmptyString => false
  | String c EmptyString => Ascii.eqb c "/"%char
  | String _ r => ends_slash r
  end.
Definition starts_slash (s : string) : bool :=
  match s with String c _ => Ascii.eqb c "/"%char | _ => false end.
Fixpoint has_slash (s : string) : bool :=
  match s with EmptyString => false | String c r => if Ascii.eqb c "/"%char then true else has_slash r end.

Definition path := list string.   (* absolute, normalised, root first *)
Fixpoint split_slash (s : string) : list string :=
  match s with
  | EmptyString => [EmptyString]
  | String c r =>
    let l := split_slash r in
    if Ascii.eqb c "/"%char then EmptyString :: l
    else match l with [] => [String c EmptyString] | h :: t => String c h :: t end
  end.
Definition norm_step (acc : path) (comp : string) : path :=
  if String.eqb comp "" then acc
  else if String.eqb comp "." then acc
  else if String.eqb comp ".." then removelast acc
  else acc ++ [comp].
(* lexical resolution of a path string against the working directory; "" does not name anything *)
Definition resolve (cwd : path) (s : string) : option path :=
  if String.eqb s "" then None
  else Some (fold_left norm_step (split_slash s) (if starts_slash s then [] else cwd)).
Definition path_str (p : path) : string :=
  match p with [] => "/" | _ => concat_str (map (fun c => "/" +++ c) p) end.
Definition basename (p : path) : string := last p "".
Fixpoint is_prefix (p q : path) : bool :=
  match p, q with
  | [], _ => true
  | a :: p', b :: q' => String.eqb a b && is_prefix p' q'
  | _, [] => false
  end.

(* ---------- abstract file system ---------- *)
Inductive node := Dir | File (content : string).
(* a slot table: the key stays when an object is removed (None), so that the shape of the table does
   not depend on which objects exist *)
Definition fs := list (path * option node).
Fixpoint fs_lookup (f : fs) (p : path) : option node :=
  match f with
  | [] => None
  | (k, v) :: r => if list_str_eqb k p then v else fs_lookup r p
  end.
Definition fs_get (f : fs) (p : path) : option node :=
  match p with [] => Some Dir | _ => fs_lookup f p end.
Fixpoint fs_set (f : fs) (p : path) (v : option node) : fs :=
  match f with
  | [] => [(p, v)]
  | (k, w) :: r => if list_str_eqb k p then (k, v) :: r else (k, w) :: fs_set r p v
  end.
Definition fs_rm_tree (f : fs) (p : path) : fs :=
  map (fun kv => if is_prefix p (fst kv) then (fst kv, None) else kv) f.
Definition is_dir (f : fs) (p : path) : bool := match fs_get f p with Some Dir => true | _ => false end.
Definition is_file (f : fs) (p : path) : bool := match fs_get f p with Some (File _) => true | _ => false end.
Definition exists_ (f : fs) (p : path) : bool := match fs_get f p with Some _ => true | None => false end.
Definition file_content (f : fs) (p : path) : option string :=
  match fs_get f p with Some (File c) => Some c | _ => None end.
(* open(2) for writing with truncation: the parent must be a directory, the target must not be one *)
Definition write_file (f : fs) (p : path) (c : string) : option fs :=
  match p with
  | [] => None
  | _ => if is_dir f p then None
         else if is_dir f (removelast p) then Some (fs_set f p (Some (File c))) else None
  end.
Definition mkdir_at (f : fs) (p : path) : option fs :=
  if exists_ f p then None
  else if is_dir f (removelast p) then Some (fs_set f p (Some Dir)) else None.

(* ---------- shell state ---------- *)
Record state := mkState {
  vars : list (string * string);
  exported : list string;
  cwd : path;
  fsys : fs;
  pos : list string;          (* positional parameters *)
  optind : nat;               (* words consumed by getopts = OPTIND-1 *)
  errexit : bool;
  last : nat;                 (* $? *)
  steps : nat;                (* steps taken so far *)
  tlog : list (list string);  (* cwd :: argv of every step, in order *)
  unmodelled : bool;          (* a construct outside the model was reached *)
  scriptdir : path            (* directory of the script (BASH_SOURCE) *)
}.
Definition upd_vars st v := mkState v st.(exported) st.(cwd) st.(fsys) st.(pos) st.(optind) st.(errexit) st.(last) st.(steps) st.(tlog) st.(unmodelled) st.(scriptdir).
Definition upd_exported st v := mkState st.(vars) v st.(cwd) st.(fsys) st.(pos) st.(optind) st.(errexit) st.(last) st.(steps) st.(tlog) st.(unmodelled) st.(scriptdir).
Definition upd_cwd st v := mkState st.(vars) st.(exported) v st.(fsys) st.(pos) st.(optind) st.(errexit) st.(last) st.(steps) st.(tlog) st.(unmodelled) st.(scriptdir).
Definition upd_fs st v := mkState st.(vars) st.(exported) st.(cwd) v st.(pos) st.(optind) st.(errexit) st.(last) st.(steps) st.(tlog) st.(unmodelled) st.(scriptdir).
Definition upd_pos st v := mkState st.(vars) st.(exported) st.(cwd) st.(fsys) v st.(optind) st.(errexit) st.(last) st.(steps) st.(tlog) st.(unmodelled) st.(scriptdir).
Definition upd_optind st v := mkState st.(vars) st.(exported) st.(cwd) st.(fsys) st.(pos) v st.(errexit) st.(last) st.(steps) st.(tlog) st.(unmodelled) st.(scriptdir).
Definition upd_errexit st v := mkState st.(vars) st.(exported) st.(cwd) st.(fsys) st.(pos) st.(optind) v st.(last) st.(steps) st.(tlog) st.(unmodelled) st.(scriptdir).
Definition upd_last st v := mkState st.(vars) st.(exported) st.(cwd) st.(fsys) st.(pos) st.(optind) st.(errexit) v st.(steps) st.(tlog) st.(unmodelled) st.(scriptdir).
Definition mark_unmodelled st := mkState st.(vars) st.(exported) st.(cwd) st.(fsys) st.(pos) st.(optind) st.(errexit) st.(last) st.(steps) st.(tlog) true st.(scriptdir).
(* one step: next index, log entry *)
Definition take_step st (entry : list string) := mkState st.(vars) st.(exported) st.(cwd) st.(fsys) st.(pos) st.(optind) st.(errexit) st.(last) (S st.(steps)) (st.(tlog) ++ [path_str st.(cwd) :: entry]) st.(unmodelled) st.(scriptdir).

Fixpoint assoc_get (l : list (string * string)) (k : string) : option string :=
  match l with [] => None | (a, b) :: r => if String.eqb a k then Some b else assoc_get r k end.
Fixpoint assoc_set (l : list (string * string)) (k v : string) : list (string * string) :=
  match l with
  | [] => [(k, v)]
  | (a, b) :: r => if String.eqb a k then (a, v) :: r else (a, b) :: assoc_set r k v
  end.
Definition set_var st (k v : string) := upd_vars st (assoc_set st.(vars) k v).
Definition get_var st (k : string) : string :=
  if String.eqb k "#" then dec_nat (List.length st.(pos))
  else if String.eqb k "@" then join_str " " st.(pos)
  else if String.eqb k "1" then nth 0 st.(pos) ""
  else match assoc_get st.(vars) k with Some v => v | None => "" end.
(* what an external tool sees of a variable: only exported ones *)
Definition get_env st (k : string) : string :=
  if mem_str k st.(exported) then get_var st k else "".

(* ---------- expansion (plain words: no IFS splitting, no globbing - see the theorem hypotheses) ---------- *)
Definition expand_part st (p : wpart) : string * bool :=
  match p with WLit s => (s, true) | WVar q v => (get_var st v, q) end.
(* join_str "" rather than concat_str: a single part expands to itself, not to itself +++ "" *)
Definition expand_str st (w : word) : string := join_str "" (map (fun p => fst (expand_part st p)) w).
(* an unquoted expansion that is empty yields no field at all *)
Definition expand_word st (w : word) : list string :=
  if existsb (fun p => snd (expand_part st p)) w then [expand_str st w]
  else match expand_str st w with EmptyString => [] | s => [s] end.
Definition expand_words st (ws : list word) : list string := flat_map (expand_word st) ws.

Definition one_path st (w : word) : option (option path) :=   (* None: not exactly one field *)
  match expand_word st w with [s] => Some (resolve st.(cwd) s) | _ => None end.

Definition eval_test st (t : test) : option bool :=
  let file_test (w : word) (k : fs -> path -> bool) :=
    match one_path st w with
    | Some (Some p) => Some (k st.(fsys) p)
    | Some None => Some false
    | None => None
    end in
  match t with
  | TFileF w => file_test w is_file
  | TFileE w => file_test w exists_
  | TFileD w => file_test w is_dir
  | TStrZ w => match expand_word st w with [] => Some true | [s] => Some (String.eqb s "") | _ => None end
  | TEq a b => match expand_word st a, expand_word st b with [x], [y] => Some (String.eqb x y) | _, _ => None end
  | TNe a b => match expand_word st a, expand_word st b with [x], [y] => Some (negb (String.eqb x y)) | _, _ => None end
  | TPrefix a p => Some (match prefix_strip p (expand_str st a) with Some _ => true | None => false end)
  | TArgsLeft => Some (match st.(pos) with [] => false | _ => true end)
  end.

(* ---------- getopts ---------- *)
Inductive gev := GOpt (c : string) (arg : string) | GBad.
(* is c an option letter of the optstring, and does it take an argument *)
Fixpoint opt_kind (os : string) (c : ascii) : option bool :=
  match os with
  | EmptyString => None
  | String a r =>
    if Ascii.eqb a c then
      (if Ascii.eqb c ":"%char then None else
       Some (match r with String b _ => Ascii.eqb b ":"%char | _ => false end))
    else opt_kind r c
  end.
(* the letters of one word after its '-' : events, and the option still waiting for its argument *)
Fixpoint scan_chars (os : string) (cs : string) : list gev * option string :=
  match cs with
  | EmptyString => ([], None)
  | String c r =>
    match opt_kind os c with
    | None => let '(e, p) := scan_chars os r in (GBad :: e, p)
    | Some false => let '(e, p) := scan_chars os r in (GOpt (String c "") "" :: e, p)
    | Some true =>
      match r with
      | EmptyString => ([], Some (String c ""))
      | _ => ([GOpt (String c "") r], None)
      end
    end
  end.
(* every event getopts reports for an argument list, and the number of words it consumes *)
Fixpoint getopts_events (os : string) (args : list string) : list gev * nat :=
  match args with
  | [] => ([], O)
  | w :: rest =>
    match w with
    | String "-"%char EmptyString => ([], O)
    | String "-"%char (String "-"%char EmptyString) => ([], 1)
    | String "-"%char cs =>
      let '(evs, pend) := scan_chars os cs in
      match pend with
      | None => let '(e2, n) := getopts_events os rest in (evs ++ e2, S n)
      | Some c =>
        match rest with
        | a :: rest' => let '(e2, n) := getopts_events os rest' in (evs ++ GOpt c a :: e2, S (S n))
        | [] => (evs ++ [GBad], 1)
        end
      end
    | _ => ([], O)
    end
  end.
Definition pat_match (p c : string) : bool :=
  if String.eqb p "?" then (match c with String _ EmptyString => true | _ => false end) else String.eqb p c.

(* ---------- the tool table ---------- *)
Definition sourced_release : string := ". /stubs/src_release.sh
".
Definition sourced_setup : string := ". /stubs/src_setup.sh
".
Definition sourced_entry : string := ". /stubs/src_entry.sh
".
Definition nl : string := "
".
Definition job_output (nonce input : string) : string := "OUT " +++ nonce +++ nl +++ input.
Definition converted (c : string) : string := "ROOT " +++ c.

Definition opt_or {A} (o : option A) (d : A) : A := match o with Some a => a | None => d end.

Section Run.
Variable oracle : nat -> bool.    (* which step indices fail *)
Variable nonce : string.          (* identifies this invocation in what its job writes *)

Inductive outcome := Cont (st : state) | Exit (code : nat) (st : state).

Definition finish (st : state) (status : nat) : outcome :=
  let st' := upd_last st status in
  match status with
  | O => Cont st'
  | _ => if st.(errexit) then Exit status st' else Cont st'
  end.
Definition unmod (st : state) : outcome := Exit 255 (mark_unmodelled st).

(* effect of a tool that was started and not made to fail: new file system, or None = exit 1 *)
Definition res (st : state) (p : string) : option path := resolve st.(cwd) p.
Definition cp_effect st (a b : string) : option fs :=
  match res st a, res st b with
  | Some src, Some dst =>
    match file_content st.(fsys) src with
    | None => None
    | Some c =>
      let target := if is_dir st.(fsys) dst then Some (dst ++ [basename src])
                    else if ends_slash b then None else Some dst in
      match target with
      | None => None
      | Some t => if list_str_eqb t src then None else write_file st.(fsys) t c
      end
    end
  | _, _ => None
  end.
Definition is_file_s st (p : string) : bool := match res st p with Some q => is_file st.(fsys) q | None => false end.
Definition is_dir_s st (p : string) : bool := match res st p with Some q => is_dir st.(fsys) q | None => false end.
Definition exists_s st (p : string) : bool := match res st p with Some q => exists_ st.(fsys) q | None => false end.
Definition content_s st (p : string) : string :=
  match res st p with Some q => opt_or (file_content st.(fsys) q) "" | None => "" end.
Definition write_s st (f : fs) (p : string) (c : string) : option fs :=
  match res st p with Some q => write_file f q c | None => None end.
Definition mkdir_s st (f : fs) (p : string) : option fs :=
  match res st p with Some q => mkdir_at f q | None => None end.
Definition obind {A B} (o : option A) (f : A -> option B) : option B := match o with Some a => f a | None => None end.

Inductive tool_res := TOk (f : fs) | TFail | TUnmodelled.
Definition of_opt (o : option fs) : tool_res := match o with Some f => TOk f | None => TFail end.
Definition known_tools : list string :=
  ["mkdir"; "cp"; "chmod"; "rm"; "cmake"; "make"; "python"; "sudo"; "mkedanlzr"; "scram"; "cmsRun"; "root"; "xrdcp"].

Definition tool_effect (st : state) (name : string) (args : list string) : tool_res :=
  let f := st.(fsys) in
  if String.eqb name "mkdir" then
    match args with [d] => if prefix_strip "-" d then TUnmodelled else of_opt (mkdir_s st f d) | _ => TUnmodelled end
  else if String.eqb name "cp" then
    match args with
    | [a; b] => if prefix_strip "-" a then TUnmodelled else of_opt (cp_effect st a b)
    | [_] => TFail
    | _ => TUnmodelled
    end
  else if String.eqb name "chmod" then
    match args with [_; p] => if exists_s st p then TOk f else TFail | _ => TUnmodelled end
  else if String.eqb name "rm" then
    match args with
    | ["-rf"; d] => match res st d with Some q => TOk (fs_rm_tree f q) | None => TOk f end
    | _ => TUnmodelled
    end
  else if String.eqb name "cmake" then
    match args with
    | [src] =>
      if is_file_s st (src +++ "/CMakeLists.txt") then
        of_opt (obind (if is_dir_s st "x86_64" then Some f else mkdir_s st f "x86_64") (fun f1 =>
                obind (write_s st f1 "x86_64/setup.sh" sourced_setup) (fun f2 =>
                write_s st f2 "Makefile" ("GEN cmake" +++ nl))))
      else TFail
    | _ => TFail
    end
  else if String.eqb name "make" then
    match args with
    | [] => if is_file_s st "Makefile" then of_opt (write_s st f "built" ("GEN build" +++ nl)) else TFail
    | _ => TFail
    end
  else if String.eqb name "python" then
    match args with
    | [script; sub] =>
      match prefix_strip "--submission-dir=" sub with
      | Some d =>
        if is_file_s st script && is_file_s st "built" && is_file_s st "filelist.txt" && negb (exists_s st d) then
          of_opt (obind (mkdir_s st f d) (fun f1 =>
                  obind (mkdir_s st f1 (d +++ "/data-ANALYSIS")) (fun f2 =>
                  write_s st f2 (d +++ "/data-ANALYSIS/ANALYSIS.root") (job_output nonce (content_s st "filelist.txt")))))
        else TFail
      | None => TFail
      end
    | _ => TFail
    end
  else if String.eqb name "sudo" then
    match args with [_; _; _; d] => if exists_s st d then TOk f else TFail | _ => TFail end
  else if String.eqb name "mkedanlzr" then
    match args with
    | [n] =>
      if exists_s st n then TFail
      else of_opt (obind (mkdir_s st f n) (fun f1 => obind (mkdir_s st f1 (n +++ "/src")) (fun f2 =>
                   obind (mkdir_s st f2 (n +++ "/plugins")) (fun f3 => mkdir_s st f3 (n +++ "/python")))))
    | _ => TFail
    end
  else if String.eqb name "scram" then
    if is_file_s st "src/Analyzer.cc" || is_file_s st "plugins/Analyzer.cc"
    then of_opt (write_s st f "built" ("GEN build" +++ nl)) else TFail
  else if String.eqb name "cmsRun" then
    match args with
    | [cfg] =>
      let out := get_env st "CMS_OUTPUT_FILE" in
      if is_file_s st cfg && is_file_s st "built" && is_file_s st "filelist.txt" && negb (String.eqb out "") then
        of_opt (write_s st f ("./" +++ out) (job_output nonce (content_s st "filelist.txt")))
      else TFail
    | _ => TFail
    end
  else if String.eqb name "root" then
    match args with
    | [_; _; _; a] =>
      match split_sub "(""" a with
      | Some (macro, rest) =>
        match split_sub """,""" rest with
        | Some (inp, out') =>
          match strip_suffix """)" out' with
          | Some out =>
            if is_file_s st macro && is_file_s st inp && negb (is_dir_s st out)
            then of_opt (write_s st f out (converted (content_s st inp))) else TFail
          | None => TFail
          end
        | None => TFail
        end
      | None => TFail
      end
    | _ => TFail
    end
  else if String.eqb name "xrdcp" then TFail
  else TUnmodelled.

(* an external command: one step *)
Definition run_tool (st : state) (argv : list string) : outcome :=
  match argv with
  | [] => finish st 0
  | name :: args =>
    if negb (mem_str name known_tools) then unmod st
    else
      let st1 := take_step st argv in
      if oracle st.(steps) then finish st1 1
      else match tool_effect st name args with
           | TOk f => finish (upd_fs st1 f) 0
           | TFail => finish st1 1
           | TUnmodelled => unmod st1
           end
  end.

(* `source file` / `. file` of one of the three set-up files: one step *)
Definition run_source (st : state) (w : word) : outcome :=
  match expand_word st w with
  | [s] =>
    if negb (has_slash s) then unmod st
    else match res st s with
    | None => finish st 1
    | Some p =>
      match fs_get st.(fsys) p with
      | Some (File c) =>
        let go (tag : string) (eff : state -> state) :=
          let st1 := take_step st [tag] in
          if oracle st.(steps) then finish st1 1 else finish (eff st1) 0 in
        if String.eqb c sourced_release then
          go "source:release" (fun s1 => upd_exported (set_var s1 "AnalysisBaseExternals_PLATFORM" "x86_64")
                                                     ("AnalysisBaseExternals_PLATFORM" :: s1.(exported)))
        else if String.eqb c sourced_setup then go "source:setup" (fun s1 => s1)
        else if String.eqb c sourced_entry then
          go "source:entry" (fun s1 => upd_exported (set_var s1 "CVSROOT" "cms") ("CVSROOT" :: s1.(exported)))
        else unmod st
      | _ => finish st 1
      end
    end
  | _ => unmod st
  end.

Fixpoint run_events (var : string) (body : string -> option (state -> outcome)) (evs : list gev) (st : state) : outcome :=
  match evs with
  | [] => Cont st
  | e :: r =>
    let ca := match e with GOpt c a => (c, a) | GBad => ("?", "") end in
    let st1 := set_var (set_var st var (fst ca)) "OPTARG" (snd ca) in
    match body (fst ca) with
    | None => run_events var body r st1
    | Some f => match f st1 with Cont st2 => run_events var body r st2 | e' => e' end
    end
  end.

Fixpoint exec_cmd (c : cmd) (st : state) {struct c} : outcome :=
  match c with
  | CAssign v w => finish (set_var st v (expand_str st w)) 0
  | CScriptDir v => finish (set_var st v (path_str st.(scriptdir))) 0
  | CPwdTo v => finish (set_var st v (path_str st.(cwd))) 0
  | CSetE => finish (upd_errexit st true) 0
  | CSetX => finish st 0
  | CShiftOpt => finish (upd_pos st (skipn st.(optind) st.(pos))) 0
  | CExit n => Exit n st
  | CEcho ws redir =>
    match redir with
    | None => finish st 0
    | Some t =>
      match expand_word st t with
      | [s] =>
        match write_s st st.(fsys) s (join_str " " (expand_words st ws) +++ nl) with
        | Some f => finish (upd_fs st f) 0
        | None => finish st 1
        end
      | _ => finish st 1
      end
    end
  | CCd w =>
    match expand_word st w with
    | [s] =>
      match res st s with
      | Some p => if is_dir st.(fsys) p then finish (upd_cwd st p) 0 else finish st 1
      | None => unmod st
      end
    | _ => unmod st
    end
  | CSource w => run_source st w
  | CExport v w => finish (upd_exported (set_var st v (expand_str st w)) (v :: st.(exported))) 0
  | CEval v lit c' => if String.eqb (get_var st v) lit then exec_cmd c' st else unmod st
  | CHeredoc target body =>
    match expand_word st target with
    | [s] =>
      match write_s st st.(fsys) s "" with
      | None => finish st 1
      | Some f0 =>
        let st1 := take_step (upd_fs st f0) ["cat"] in
        if oracle st.(steps) then finish st1 1
        else finish (upd_fs st1 (opt_or (write_s st f0 s body) f0)) 0
      end
    | _ => finish st 1
    end
  | CRun ws => run_tool st (expand_words st ws)
  | CIf b e => exec_branches b (exec_cmds e) st
  | CGetopts os var a =>
    let st0 := set_var (set_var st var "") "OPTARG" "" in
    let ge := getopts_events os st.(pos) in
    match run_events var (exec_arms a) (fst ge) st0 with
    | Cont st1 => finish (upd_optind st1 (snd ge)) 0
    | e' => e'
    end
  end
with exec_cmds (l : cmds) (st : state) {struct l} : outcome :=
  match l with
  | CNil => Cont st
  | CCons c r => match exec_cmd c st with Cont st1 => exec_cmds r st1 | e => e end
  end
with exec_branches (b : branches) (els : state -> outcome) (st : state) {struct b} : outcome :=
  match b with
  | BNil => els (upd_last st 0)
  | BCons t body r =>
    match eval_test st t with
    | None => unmod st
    | Some true => exec_cmds body (upd_last st 0)
    | Some false => exec_branches r els st
    end
  end
with exec_arms (a : arms) (c : string) {struct a} : option (state -> outcome) :=
  match a with
  | ANil => None
  | ACons p body r => if pat_match p c then Some (exec_cmds body) else exec_arms r c
  end.

Record result := mkResult { r_exit : nat; r_st : state }.
Definition run_script (s : cmds) (st0 : state) : result :=
  match exec_cmds s st0 with
  | Cont st => mkResult st.(last) st
  | Exit c st => mkResult c st
  end.
End Run.

(* ---------- the world a script is started in ---------- *)
Record config := mkConfig {
  cf_fl_dir : bool;      (* filelist.txt in the package directory *)
  cf_fl_local : bool;    (* filelist.txt in the start directory *)
  cf_release : bool;     (* /home/atlas/release_setup.sh present *)
  cf_entry : bool;       (* /opt/cms/entrypoint.sh present *)
  cf_calib : bool;       (* /xaod_calibration_cache present *)
  cf_cvsroot : bool      (* CVSROOT already set in the environment *)
}.
Definition default_filelist : string := "/data/a.root" +++ nl.
Definition pkg_content (name : string) : string := "PKG " +++ name +++ nl.
Definition opt_if {A} (b : bool) (a : A) : option A := if b then Some a else None.
Definition init_fs (pkg : list string) (slots : list path) (c : config) : fs :=
  [ (["scripts"], Some Dir) ] ++
  map (fun n => (["scripts"; n], Some (File (pkg_content n)))) pkg ++
  [ (["scripts"; "filelist.txt"], opt_if c.(cf_fl_dir) (File default_filelist));
    (["work"], Some Dir);
    (["work"; "filelist.txt"], opt_if c.(cf_fl_local) (File default_filelist));
    (["results"], Some Dir);
    (["out2"], Some Dir);
    (["home"], Some Dir); (["home"; "atlas"], Some Dir);
    (["home"; "atlas"; "release_setup.sh"], opt_if c.(cf_release) (File sourced_release));
    (["opt"], Some Dir); (["opt"; "cms"], Some Dir);
    (["opt"; "cms"; "entrypoint.sh"], opt_if c.(cf_entry) (File sourced_entry));
    (["xaod_calibration_cache"], opt_if c.(cf_calib) Dir) ] ++
  map (fun p => (p, None)) slots.
Definition init_state (c : config) (f : fs) (args : list string) : state :=
  (* CVSROOT unset and CVSROOT empty are the same to the scripts ([ -z "$CVSROOT" ]) and to the tools *)
  mkState [("CVSROOT", if c.(cf_cvsroot) then "preset" else "")] ["CVSROOT"]
          ["work"] f args 0 false 0 0 [] false ["scripts"].

(* one invocation of the script in the world f *)
Definition invoke (s : cmds) (c : config) (f : fs) (args : list string) (oracle : nat -> bool) (nonce : string) : result :=
  run_script oracle nonce s (init_state c f args).

(* a history of invocations: the file system is what persists *)
Record invocation := mkInv { i_args : list string; i_oracle : nat -> bool; i_nonce : string }.
Fixpoint run_history (s : cmds) (c : config) (f : fs) (h : list invocation) : list result :=
  match h with
  | [] => []
  | i :: r => let x := invoke s c f i.(i_args) i.(i_oracle) i.(i_nonce) in x :: run_history s c x.(r_st).(fsys) r
  end.

(* the destination words of the proofs and of the correspondence: an existing directory (the default),
   another existing directory, a file name in an existing directory, a file name whose directory does
   not exist, a name relative to the directory the job runs in *)
Definition dest_words : list string := ["/results"; "/out2"; "/out2/named.root"; "/nowhere/x.root"; "rel_out.root"].
(* where `-o p` delivers when the job runs in directory d *)
Definition delivery (f : fs) (d : path) (p : string) : option path :=
  match resolve d p with
  | Some q => Some (if is_dir f q then q ++ ["ANALYSIS.root"] else q)
  | None => None
  end.
(* places that exist only after some run; listed (empty) in the initial table so that its shape is fixed *)
Definition dest_slots : list path := [["results"; "ANALYSIS.root"]; ["out2"; "ANALYSIS.root"]; ["out2"; "named.root"]].
Definition run_dir_atlas : path := ["work"; "rel"; "build"].
Definition run_dir_cms : path := ["work"; "analysis"; "Analyzer"].
Definition slots_atlas : list path :=
  dest_slots ++ map (fun x => run_dir_atlas ++ x)
    [["filelist.txt"]; ["bogus"]; ["bogus"; "data-ANALYSIS"]; ["bogus"; "data-ANALYSIS"; "ANALYSIS.root"]; ["rel_out.root"]].
Definition slots_cms : list path :=
  dest_slots ++ map (fun x => run_dir_cms ++ x) [["filelist.txt"]; ["ANALYSIS.root"]; ["rel_out.root"]].
Definition pkg_atlas : list string := ["query.h"; "query.cxx"; "ATestRun_eljob.py"; "package_CMakeLists.txt"].
Definition pkg_cms : list string := ["Analyzer.cc"; "analyzer_cfg.py"; "BuildFile.xml"; "copy_root_tree.C"].

(* ---------- wire ---------- *)
Definition oracle_of (l : list nat) : nat -> bool := fun i => existsb (Nat.eqb i) l.
Definition d_config (s : sexp) : option config :=
  match s with
  | SList [a0; a; b; c; d; e] =>
    match d_bool a0, d_bool a, d_bool b, d_bool c, d_bool d, d_bool e with
    | Some a0', Some a', Some b', Some c', Some d', Some e' => Some (mkConfig a0' a' b' c' d' e')
    | _, _, _, _, _, _ => None
    end
  | _ => None
  end.
Definition d_inv (s : sexp) : option invocation :=
  match s with
  | SList [a; SList fl; n] =>
    match d_strs a, d_list d_nat fl, d_str n with
    | Some a', Some fl', Some n' => Some (mkInv a' (oracle_of fl') n')
    | _, _, _ => None
    end
  | _ => None
  end.
Definition d_stale (s : sexp) : option (string * string) :=
  match s with SList [SAtom p; SAtom c] => Some (p, c) | _ => None end.
Definition snap_dirs : list string := ["scripts"; "work"; "results"; "out2"].
Definition enc_fs (f : fs) : sexp :=
  SList (flat_map (fun kv =>
    match kv with
    | (k, Some n) =>
      if mem_str (hd "" k) snap_dirs
      then [SList [SAtom (path_str k); SAtom (match n with Dir => "D" | File c => "F" +++ c end)]] else []
    | (_, None) => []
    end) f).
Definition enc_result (r : result) : sexp :=
  SList [s_nat r.(r_exit); s_bool r.(r_st).(unmodelled); SList (map s_strs r.(r_st).(tlog)); enc_fs r.(r_st).(fsys)].
Definition add_stale (f : fs) (l : list (string * string)) : fs :=
  fold_left (fun f' pc => match resolve [] (fst pc) with Some q => fs_set f' q (Some (File (snd pc))) | None => f' end) l f.
(* (config stale history) -> one result per invocation *)
Definition run_wire (s : cmds) (pkg : list string) (slots : list path) (arg : sexp) : sexp :=
  match arg with
  | SList [c; SList st; SList h] =>
    match d_config c, d_list d_stale st, d_list d_inv h with
    | Some c', Some st', Some h' => SList (map enc_result (run_history s c' (add_stale (init_fs pkg slots c') st') h'))
    | _, _, _ => bad_input
    end
  | _ => bad_input
  end.
(* getopts alone, for the correspondence of the option parser *)
Definition run_getopts (arg : sexp) : sexp :=
  match arg with
  | SList [SAtom os; a] =>
    match d_strs a with
    | Some a' =>
      let ge := getopts_events os a' in
      SList [SList (map (fun e => match e with GOpt c x => SList [SAtom c; SAtom x] | GBad => SList [SAtom "?"; SAtom ""] end) (fst ge)); s_nat (snd ge)]
    | None => bad_input
    end
  | _ => bad_input
  end.
