(* Hand model of local docker execution:
     func_adl_xAOD/common/local_dataset.py  (LocalDataset.__init__, execute_result_async,
                                             _extract_result_TTree)
     func_adl_xAOD/{atlas/xaod,cms/aod,cms/miniaod}/local_dataset.py (docker_cache_volume, executor)
     func_adl_xAOD/common/executor.py (add_extended_md / extended_md: the "docker" key)
   as a pure function of the file list (each file with parent directory, name, exists?), the
   constructor arguments, the process environment (gettempdir(), cwd, does the output directory
   exist), the query (metadata in process_metadata order, does translation raise) and the container
   oracle (what the stand-in python_on_whales.docker.run does).
   Abstract: package generation (the translator is the subject of C01..C03; here it either raises a
   given exception class or produces the package in the fresh temporary directory, written SrcPkg),
   pathlib's split of a path into parent and name, log text.  No proofs in this file. *)
From FV Require Import Base.Prelude.

Definition ErrFileNotFound : err := ErrOther "FileNotFoundError".
Definition ErrDocker : err := ErrOther "DockerException".
Definition nl : string := String (ascii_of_nat 10) EmptyString.
Definition result_file_name : string := "ANALYSIS.root".   (* ast_to_cpp_translator: cpp_ttree_rep("ANALYSIS.root", ...) *)

(* ---------- inputs ---------- *)
Record file := { f_parent : string; f_name : string; f_exists : bool }.   (* Path(f).parent, .name, .exists() *)

Inductive backend := Atlas | CmsAod | CmsMiniaod.

(* one MetaData dictionary, in the order process_metadata sees them (outermost MetaData call first):
   {"metadata_type": "docker", ["image": i]} or any other accepted metadata *)
Inductive md := MdDocker (image : option string) | MdOther.

Record dataset_args := {
  a_files : list file; a_image : string; a_tag : string;
  a_outdir : option string; a_backend : backend }.

Record env := {
  e_tmpdir : string;          (* tempfile.gettempdir() *)
  e_cwd : string;             (* Path.cwd() *)
  e_outdir_exists : bool }.   (* the directory results are copied to exists and is writable *)

Record query := {
  q_mds : list md;
  q_translate : option err }. (* Some e: apply_ast_transformations / write_cpp_files raises e *)

(* what python_on_whales yields: (source, bytes); ChOther = content that is not bytes (outside the
   library's contract, kept so that the model is total over what the stand-in can play) *)
Inductive chunk := ChBytes (is_stdout : bool) | ChOther.

Record container := {
  k_at_call : bool;             (* docker.run itself raises DockerException *)
  k_chunks : list chunk;
  k_fail_after : option nat;    (* DockerException raised from the generator after that many chunks *)
  k_result : bool }.            (* ANALYSIS.root is present in the /results volume afterwards *)

(* ---------- observable effects ---------- *)
Inductive vsrc := SrcPkg | SrcDir (d : string) | SrcName (n : string).
Record volume := { v_src : vsrc; v_dst : string; v_mode : option string }.
Record call := {
  c_image : string; c_command : list string; c_volumes : list volume;
  c_remove : bool; c_stream : bool }.

Record effects := {
  x_calls : list call;               (* docker.run calls, in order *)
  x_filelist : string;               (* what was written to filelist.txt *)
  x_outcome : result (list string) }.  (* returned paths, or the exception class *)

(* ---------- the three subclasses ---------- *)
(* mirrors {atlas/xaod,cms/aod,cms/miniaod}/local_dataset.py: docker_cache_volume *)
Definition cache_volumes (b : backend) : list (string * string) :=
  match b with
  | Atlas => [("atlas_xaod_calibration_cache", "/xaod_calibration_cache")]
  | CmsAod => []
  | CmsMiniaod => []
  end.

(* mirrors {atlas/xaod,cms/aod,cms/miniaod}/executor.py: runner_name *)
Definition runner_name (b : backend) : string :=
  match b with Atlas => "runner.sh" | CmsAod => "runner.sh" | CmsMiniaod => "runner.sh" end.

(* mirrors local_dataset.py: _docker_volume_name *)
Definition docker_volume_name (n : string) : string := "func_adl_" +++ n.

(* ---------- paths ---------- *)
Definition is_abs (p : string) : bool :=
  match p with String c _ => Ascii.eqb c "/"%char | EmptyString => false end.

(* mirrors pathlib: Path.absolute() of a normalised path = cwd / p *)
Definition path_join (d n : string) : string :=
  if String.eqb d "/" then "/" +++ n else d +++ "/" +++ n.
Definition absolute (cwd p : string) : string :=
  if is_abs p then p else if String.eqb p "." then cwd else path_join cwd p.

(* ---------- constructor ---------- *)
Record dataset := {
  d_files : list file; d_docker_image : string; d_output_directory : string; d_backend : backend }.

(* mirrors local_dataset.py: LocalDataset.__init__ *)
Definition construct (a : dataset_args) (e : env) : result dataset :=
  match a_files a with
  | [] => Error ErrRuntime
  | _ =>
      match find (fun f => negb (f_exists f)) (a_files a) with
      | Some _ => Error ErrFileNotFound
      | None =>
          OK {| d_files := a_files a;
                d_docker_image := a_image a +++ ":" +++ a_tag a;
                d_output_directory := match a_outdir a with Some d => d | None => e_tmpdir e end;
                d_backend := a_backend a |}
      end
  end.

(* ---------- image override ---------- *)
(* mirrors meta_data.process_metadata (extended_properties branch: copy of the default spec with the
   keys of the dictionary set) + executor.apply_ast_transformations (_found_extended_md["docker"]) *)
Fixpoint found_docker (dflt : string) (mds : list md) : list string :=
  match mds with
  | [] => []
  | MdDocker (Some i) :: r => i :: found_docker dflt r
  | MdDocker None :: r => dflt :: found_docker dflt r
  | MdOther :: r => found_docker dflt r
  end.

(* mirrors execute_result_async: `if len(md) > 0: docker_image = md[-1].image` *)
Definition pick_image (dflt : string) (mds : list md) : string :=
  List.last (found_docker dflt mds) dflt.

(* ---------- file list ---------- *)
Definition filelist_line (u : file) : string := "/data/" +++ f_name u +++ nl.

(* mirrors execute_result_async: the `for u in self.files` loop (write the line, then compare the
   directory with the first one seen) *)
Fixpoint filelist_loop (fs : list file) (dir : option string) (written : string)
  : string * result (option string) :=
  match fs with
  | [] => (written, OK dir)
  | u :: r =>
      let written' := written +++ filelist_line u in
      match dir with
      | None => filelist_loop r (Some (f_parent u)) written'
      | Some d =>
          if String.eqb (f_parent u) d then filelist_loop r dir written'
          else (written', Error ErrRuntime)
      end
  end.

(* ---------- container ---------- *)
(* mirrors execute_result_async: `for stream_type, stream_content in output_generator` over what the
   generator yields; decoding with errors="replace" cannot fail on bytes *)
Fixpoint stream_loop (cs : list chunk) (fail : option nat) {struct cs} : result unit :=
  match fail with
  | Some O => Error ErrDocker
  | _ =>
      match cs with
      | [] => match fail with Some _ => Error ErrDocker | None => OK tt end
      | ChOther :: _ => Error ErrAttr
      | ChBytes _ :: r => stream_loop r (option_map Nat.pred fail)
      end
  end.

(* mirrors the try block: docker.run(...) then the loop; DockerException is logged and re-raised *)
Definition run_container (k : container) : result unit :=
  if k_at_call k then Error ErrDocker else stream_loop (k_chunks k) (k_fail_after k).

(* mirrors local_dataset.py: _extract_result_TTree (shutil.copy raises FileNotFoundError when the
   source or the destination directory is missing) *)
Definition extract_result (k : container) (e : env) (outdir : string) : result string :=
  if k_result k then
    if e_outdir_exists e then OK (path_join outdir result_file_name) else Error ErrFileNotFound
  else Error ErrFileNotFound.

Definition volumes_to_mount (b : backend) (datadir : string) : list volume :=
  [ {| v_src := SrcPkg; v_dst := "/scripts"; v_mode := Some "ro" |};
    {| v_src := SrcPkg; v_dst := "/results"; v_mode := Some "rw" |};
    {| v_src := SrcDir datadir; v_dst := "/data/"; v_mode := Some "ro" |} ]
  ++ map (fun v => {| v_src := SrcName (docker_volume_name (fst v)); v_dst := snd v; v_mode := None |})
         (cache_volumes b).

(* mirrors local_dataset.py: LocalDataset.execute_result_async *)
Definition execute (ds : dataset) (e : env) (q : query) (k : container) : effects :=
  match q_translate q with
  | Some er => {| x_calls := []; x_filelist := ""; x_outcome := Error er |}
  | None =>
      let image := pick_image (d_docker_image ds) (q_mds q) in
      match filelist_loop (d_files ds) None "" with
      | (written, Error er) => {| x_calls := []; x_filelist := written; x_outcome := Error er |}
      | (written, OK None) =>   (* datafile_dir is None: None.absolute() *)
          {| x_calls := []; x_filelist := written; x_outcome := Error ErrAttr |}
      | (written, OK (Some dir)) =>
          let c := {| c_image := image;
                      c_command := ["/scripts/" +++ runner_name (d_backend ds)];
                      c_volumes := volumes_to_mount (d_backend ds) (absolute (e_cwd e) dir);
                      c_remove := true; c_stream := true |} in
          match run_container k with
          | Error er => {| x_calls := [c]; x_filelist := written; x_outcome := Error er |}
          | OK _ =>
              match extract_result k e (d_output_directory ds) with
              | Error er => {| x_calls := [c]; x_filelist := written; x_outcome := Error er |}
              | OK p => {| x_calls := [c]; x_filelist := written; x_outcome := OK [p] |}
              end
          end
      end
  end.

(* Dataset(files, image, tag, output_directory) ... .value() *)
Definition run (a : dataset_args) (e : env) (q : query) (k : container) : effects :=
  match construct a e with
  | Error er => {| x_calls := []; x_filelist := ""; x_outcome := Error er |}
  | OK ds => execute ds e q k
  end.

(* ---------- wire format ---------- *)
Definition d_file (s : sexp) : option file :=
  match s with
  | SList [SAtom p; SAtom n; ex] =>
      match d_bool ex with Some b => Some {| f_parent := p; f_name := n; f_exists := b |} | None => None end
  | _ => None
  end.
Definition d_backend_ (s : sexp) : option backend :=
  match s with
  | SAtom "atlas" => Some Atlas | SAtom "cms_aod" => Some CmsAod | SAtom "cms_miniaod" => Some CmsMiniaod
  | _ => None
  end.
Definition d_opt_str (s : sexp) : option (option string) :=
  match s with SList [] => Some None | SList [SAtom a] => Some (Some a) | _ => None end.
Definition d_md (s : sexp) : option md :=
  match s with
  | SList [SAtom "docker"] => Some (MdDocker None)
  | SList [SAtom "docker"; SAtom i] => Some (MdDocker (Some i))
  | SList [SAtom "other"] => Some MdOther
  | _ => None
  end.
Definition d_chunk (s : sexp) : option chunk :=
  match s with
  | SAtom "stdout" => Some (ChBytes true) | SAtom "stderr" => Some (ChBytes false)
  | SAtom "other" => Some ChOther | _ => None
  end.
Definition d_opt_nat (s : sexp) : option (option nat) :=
  match s with
  | SList [] => Some None
  | SList [n] => match d_nat n with Some x => Some (Some x) | None => None end
  | _ => None
  end.

Definition s_vsrc (v : vsrc) : sexp :=
  match v with SrcPkg => s_tag "pkg" [] | SrcDir d => s_tag "dir" [SAtom d] | SrcName n => s_tag "name" [SAtom n] end.
Definition s_volume (v : volume) : sexp :=
  SList [s_vsrc (v_src v); SAtom (v_dst v); match v_mode v with Some m => SList [SAtom m] | None => SList [] end].
Definition s_call (c : call) : sexp :=
  SList [SAtom (c_image c); s_strs (c_command c); SList (map s_volume (c_volumes c));
         s_bool (c_remove c); s_bool (c_stream c)].
Definition s_effects (x : effects) : sexp :=
  SList [SList (map s_call (x_calls x)); SAtom (x_filelist x); s_result s_strs (x_outcome x)].

(* payload: [files image tag outdir? backend tmpdir cwd outdir_exists mds translate? at_call chunks fail_after? result] *)
Definition run_execute (s : sexp) : sexp :=
  match s with
  | SList [SList fs; SAtom image; SAtom tag; od; be; SAtom tmp; SAtom cwd; ode;
           SList mds; tr; ac; SList chs; fa; res] =>
      match d_list d_file fs, d_opt_str od, d_backend_ be, d_bool ode, d_list d_md mds, d_opt_str tr,
            d_bool ac, d_list d_chunk chs, d_opt_nat fa, d_bool res with
      | Some fs', Some od', Some be', Some ode', Some mds', Some tr', Some ac', Some chs', Some fa', Some res' =>
          s_effects
            (run {| a_files := fs'; a_image := image; a_tag := tag; a_outdir := od'; a_backend := be' |}
                 {| e_tmpdir := tmp; e_cwd := cwd; e_outdir_exists := ode' |}
                 {| q_mds := mds'; q_translate := option_map ErrOther tr' |}
                 {| k_at_call := ac'; k_chunks := chs'; k_fail_after := fa'; k_result := res' |})
      | _, _, _, _, _, _, _, _, _, _ => bad_input
      end
  | _ => bad_input
  end.
