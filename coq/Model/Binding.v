(* Model of the repository's binding machinery (C08):
     - func_adl.ast.call_stack.argument_stack as used by
       func_adl_xAOD/common/ast_to_cpp_translator.py: query_ast_visitor.visit_Call_Lambda (453-462),
       resolve_id (373-390), visit_Name (821-828), call_Select / call_SelectMany / call_Where /
       visit_call_Aggregate_initial (which apply a lambda to closed translator values, `rep.as_ast()`);
     - the name-keyed call rewriters cpp_ast.py: cpp_ast_finder.visit_Call (165-203) and
       cpp_functions.py: find_known_functions.visit_Call.
   Executable definitions only; proofs are in Proofs/BindingProofs.v. *)
From FV Require Import Base.Prelude.

(* ---------- query expressions as the translator sees them ---------- *)
Inductive expr :=
| EName (x : string)                       (* ast.Name *)
| EConst (c : string)                      (* ast.Constant, and opaque nodes (CPPCodeValue, FunctionAST, dataset) *)
| EAttr (e : expr) (a : string)            (* ast.Attribute *)
| ECall (f : expr) (args : list expr)      (* ast.Call *)
| ELam (ps : list string) (body : expr)    (* ast.Lambda, args.args only *)
| EOp (op : string) (args : list expr).    (* BinOp / Compare / BoolOp / UnaryOp / IfExp / Tuple / List / Dict / Subscript:
                                              visited child by child, no binding of their own *)

(* what a parameter is bound to in a frame:
   BAst a : the *unevaluated* argument AST (visit_Call_Lambda: define_name(l_arg.arg, c_arg));
   BVal l : a closed translator value `rep.as_ast()` (call_Select & co.), identified by its binder level *)
Inductive bval := BAst (a : expr) | BVal (l : nat).
Definition frame := list (string * bval).
Definition frames := list frame.           (* innermost frame first *)

(* mirrors call_stack.py: argument_stack.lookup_name (`for frames in reversed(...)`: innermost first) *)
Fixpoint lookup_frame (f : frame) (x : string) : option bval :=
  match f with
  | [] => None
  | (y, v) :: r => if String.eqb x y then Some v else lookup_frame r x
  end.
Fixpoint lookup (fr : frames) (x : string) : option bval :=
  match fr with
  | [] => None
  | f :: r => match lookup_frame f x with Some v => Some v | None => lookup r x end
  end.

(* mirrors argument_stack.define_name over `zip(args, params)`: a dict assignment, so a later
   parameter of the same name wins (newest binding is consed in front); zip stops at the shorter list *)
Fixpoint define_all (ps : list string) (vs : list bval) (f : frame) : frame :=
  match ps, vs with
  | p :: ps', v :: vs' => define_all ps' vs' ((p, v) :: f)
  | _, _ => f
  end.

(* ---------- resolved (closed, nameless) terms ---------- *)
Inductive cexpr :=
| CFree (x : string)                       (* a name no frame binds: function / namespace name *)
| CVal (l : nat)                           (* the value bound by the binder at level l *)
| CConst (c : string)
| CAttr (e : cexpr) (a : string)
| CCall (f : cexpr) (args : list cexpr)
| CLam (n : nat) (body : cexpr)            (* arity only: parameter names are gone *)
| COp (op : string) (args : list cexpr).

Fixpoint all_some {A} (l : list (option A)) : option (list A) :=
  match l with
  | [] => Some []
  | Some a :: r => match all_some r with Some r' => Some (a :: r') | None => None end
  | None :: _ => None
  end.

(* = all_some (map f l) (BindingProofs.map_opt_eq), but stops at the first failure: with fuel bounding only the
   depth, a self-referential binding would otherwise cost time exponential in the fuel *)
Fixpoint map_opt {A B} (f : A -> option B) (l : list A) : option (list B) :=
  match l with
  | [] => Some []
  | a :: r =>
      match f a with
      | None => None
      | Some b => match map_opt f r with Some r' => Some (b :: r') | None => None end
      end
  end.

(* The visitor, reduced to what it does with names.
   - visit_Name: resolve_id looks the name up in the frame stack *current at the time of the lookup*
     and then visits the AST it is bound to (`self.get_rep(id)`) in that same stack: dynamic scoping.
   - visit_Call with a Lambda as func: visit_Call_Lambda pushes a frame binding the parameters to the
     argument ASTs and visits the body.
   - a Lambda that is an argument of Select / SelectMany / Where / Aggregate is applied by the visitor to
     closed values: modelled at the Lambda node (parameters bound to fresh levels d, d+1, ...).
   [d] = number of value binders around the term being produced.  Explicit fuel: the Python recursion is
   unbounded (`(lambda x: x)(x)` under a binding of x to itself would not terminate). *)
Fixpoint resolve (fuel : nat) (fr : frames) (d : nat) (e : expr) {struct fuel} : option cexpr :=
  match fuel with
  | O => None
  | S f =>
    match e with
    | EName x =>
        match lookup fr x with
        | Some (BVal l) => Some (CVal l)
        | Some (BAst a) => resolve f fr d a
        | None => Some (CFree x)
        end
    | EConst c => Some (CConst c)
    | EAttr e1 a => option_map (fun r => CAttr r a) (resolve f fr d e1)
    | ECall (ELam ps body) args =>
        resolve f (define_all ps (map BAst args) [] :: fr) d body
    | ECall (EName fn) args =>
        (* visit_Call dispatches on the *name* in func position (call_<name>, FunctionAST, "Do not know how to
           call"): it is never looked up in the frame stack, whatever it is bound to *)
        option_map (CCall (CFree fn)) (map_opt (resolve f fr d) args)
    | ECall g args =>
        match resolve f fr d g with
        | None => None
        | Some rg => match map_opt (resolve f fr d) args with Some ra => Some (CCall rg ra) | None => None end
        end
    | ELam ps body =>
        option_map (CLam (List.length ps))
          (resolve f (define_all ps (map BVal (seq d (List.length ps))) [] :: fr) (d + List.length ps) body)
    | EOp op args => option_map (COp op) (map_opt (resolve f fr d) args)
    end
  end.

(* the stack of a fresh visitor: argument_stack.__init__ : [{}] *)
Definition empty_stack : frames := [[]].
Definition resolve_top (fuel : nat) (e : expr) : option cexpr := resolve fuel empty_stack 0 e.

(* ---------- renamings ---------- *)
(* apply a renaming to every identifier (binders and variable occurrences); attribute names, constants
   and operator tags are not identifiers *)
Fixpoint map_names (s : string -> string) (e : expr) : expr :=
  match e with
  | EName x => EName (s x)
  | EConst c => EConst c
  | EAttr e1 a => EAttr (map_names s e1) a
  | ECall g args => ECall (map_names s g) (map (map_names s) args)
  | ELam ps b => ELam (map s ps) (map_names s b)
  | EOp op args => EOp op (map (map_names s) args)
  end.

Definition map_bval (s : string -> string) (v : bval) : bval :=
  match v with BAst a => BAst (map_names s a) | BVal l => BVal l end.
Definition map_frame (s : string -> string) (f : frame) : frame :=
  map (fun kv => (s (fst kv), map_bval s (snd kv))) f.
Definition map_frames (s : string -> string) (fr : frames) : frames := map (map_frame s) fr.

Fixpoint cmap (s : string -> string) (c : cexpr) : cexpr :=
  match c with
  | CFree x => CFree (s x)
  | CVal l => CVal l
  | CConst k => CConst k
  | CAttr e a => CAttr (cmap s e) a
  | CCall g args => CCall (cmap s g) (map (cmap s) args)
  | CLam n b => CLam n (cmap s b)
  | COp op args => COp op (map (cmap s) args)
  end.

Fixpoint cfree (c : cexpr) : list string :=
  match c with
  | CFree x => [x]
  | CVal _ | CConst _ => []
  | CAttr e _ => cfree e
  | CCall g args => cfree g ++ flat_map cfree args
  | CLam _ b => cfree b
  | COp _ args => flat_map cfree args
  end.

Definition swap (a b x : string) : string :=
  if String.eqb x a then b else if String.eqb x b then a else x.

(* ---------- static (lexical) alpha-equivalence, the specification ---------- *)
(* binder contexts: parameter lists of the enclosing lambdas, innermost first *)
Definition bctx := list (list string).

(* index of the LAST parameter called x (Python: a repeated parameter name rebinds) *)
Fixpoint last_index (ps : list string) (x : string) (i : nat) : option nat :=
  match ps with
  | [] => None
  | p :: r =>
      match last_index r x (S i) with
      | Some k => Some k
      | None => if String.eqb x p then Some i else None
      end
  end.

(* the binder a name refers to: (height of its lambda above the outermost one, parameter index) *)
Fixpoint binder_of (c : bctx) (x : string) : option (nat * nat) :=
  match c with
  | [] => None
  | ps :: r =>
      match last_index ps x 0 with
      | Some i => Some (List.length r, i)
      | None => binder_of r x
      end
  end.

(* no lambda is applied directly (func_adl's simplify_chained_calls beta-reduces such calls before the
   translator runs; everything else that reaches visit_Call_Lambda is applied to closed values) *)
Fixpoint no_app (e : expr) : bool :=
  match e with
  | EName _ | EConst _ => true
  | EAttr e1 _ => no_app e1
  | ECall g args =>
      match g with ELam _ _ => false | _ => no_app g end && forallb no_app args
  | ELam _ b => no_app b
  | EOp _ args => forallb no_app args
  end.

(* frames / depth the visitor is in after entering the lambdas of a binder context *)
Fixpoint depth_of (c : bctx) : nat :=
  match c with [] => 0 | ps :: r => depth_of r + List.length ps end.
Fixpoint vframes (c : bctx) : frames :=
  match c with
  | [] => empty_stack
  | ps :: r => define_all ps (map BVal (seq (depth_of r) (List.length ps))) [] :: vframes r
  end.

(* ---------- the name-keyed call rewriters ---------- *)
(* K : names rewritten when called as a function (functions_to_replace keys that eval() leaves
       unqualified, add_cpp_function entries without method_object);
   MO: method names with a method_object (the instance *name* is kept and resolved later through
       resolve_id: replacement_instance_obj);
   MC: collection / function callbacks invoked method-style (`e.Jets(...)`: the instance name is dropped).
   mirrors cpp_ast_finder.visit_Call + find_known_functions.visit_Call: children first, then the call is
   replaced when func is `Name f` (f in K) or `Name x . m` (m in MO / MC) - whatever x or f is bound to. *)
Fixpoint rewrite (K MO MC : list string) (e : expr) : expr :=
  match e with
  | EName x => EName x
  | EConst c => EConst c
  | EAttr e1 a => EAttr (rewrite K MO MC e1) a
  | ECall g args =>
      let args' := map (rewrite K MO MC) args in
      match g with
      | EName f => if mem_str f K then ECall (EConst ("<fn:" +++ f +++ ">")) args' else ECall (EName f) args'
      | EAttr (EName x) m =>
          if mem_str m MO then ECall (EConst ("<method:" +++ m +++ ">")) (EName x :: args')
          else if mem_str m MC then ECall (EConst ("<cpp:" +++ m +++ ">")) args'
          else ECall (EAttr (EName x) m) args'
      | _ => ECall (rewrite K MO MC g) args'
      end
  | ELam ps b => ELam ps (rewrite K MO MC b)
  | EOp op args => EOp op (map (rewrite K MO MC) args)
  end.

(* ---------- wire format ---------- *)
Fixpoint d_expr (s : sexp) : option expr :=
  let fix go (l : list sexp) : option (list expr) :=
    match l with
    | [] => Some []
    | a :: r => match d_expr a, go r with Some a', Some r' => Some (a' :: r') | _, _ => None end
    end in
  match s with
  | SList [SAtom "name"; SAtom x] => Some (EName x)
  | SList [SAtom "const"; SAtom c] => Some (EConst c)
  | SList [SAtom "attr"; e1; SAtom a] => option_map (fun e' => EAttr e' a) (d_expr e1)
  | SList [SAtom "call"; g; SList args] =>
      match d_expr g, go args with Some g', Some a' => Some (ECall g' a') | _, _ => None end
  | SList [SAtom "lam"; ps; b] =>
      match d_strs ps, d_expr b with Some ps', Some b' => Some (ELam ps' b') | _, _ => None end
  | SList [SAtom "op"; SAtom op; SList args] => option_map (EOp op) (go args)
  | _ => None
  end.

Fixpoint e_expr (e : expr) : sexp :=
  match e with
  | EName x => s_tag "name" [SAtom x]
  | EConst c => s_tag "const" [SAtom c]
  | EAttr e1 a => s_tag "attr" [e_expr e1; SAtom a]
  | ECall g args => s_tag "call" [e_expr g; SList (map e_expr args)]
  | ELam ps b => s_tag "lam" [s_strs ps; e_expr b]
  | EOp op args => s_tag "op" [SAtom op; SList (map e_expr args)]
  end.

Fixpoint e_cexpr (c : cexpr) : sexp :=
  match c with
  | CFree x => s_tag "free" [SAtom x]
  | CVal l => s_tag "val" [s_nat l]
  | CConst k => s_tag "const" [SAtom k]
  | CAttr e a => s_tag "attr" [e_cexpr e; SAtom a]
  | CCall g args => s_tag "call" [e_cexpr g; SList (map e_cexpr args)]
  | CLam n b => s_tag "lam" [s_nat n; e_cexpr b]
  | COp op args => s_tag "op" [SAtom op; SList (map e_cexpr args)]
  end.

(* [fuel, expr] -> ["ok", closed term] | ["error", "OutOfFuel"] *)
Definition run_resolve (s : sexp) : sexp :=
  match s with
  | SList [fu; q] =>
      match d_nat fu, d_expr q with
      | Some fuel, Some e =>
          match resolve_top fuel e with
          | Some c => s_tag "ok" [e_cexpr c]
          | None => s_err ErrOutOfFuel
          end
      | _, _ => bad_input
      end
  | _ => bad_input
  end.

(* [K, MO, MC, expr] -> rewritten expr *)
Definition run_rewrite (s : sexp) : sexp :=
  match s with
  | SList [k; mo; mc; q] =>
      match d_strs k, d_strs mo, d_strs mc, d_expr q with
      | Some K, Some MO, Some MC, Some e => s_tag "ok" [e_expr (rewrite K MO MC e)]
      | _, _, _, _ => bad_input
      end
  | _ => bad_input
  end.
