
(** val negb : bool -> bool **)

let negb = function
| true -> false
| false -> true

type nat =
| O
| S of nat

(** val snd : ('a1 * 'a2) -> 'a2 **)

let snd = function
| (_, y) -> y

(** val length : 'a1 list -> nat **)

let rec length = function
| [] -> O
| _ :: l' -> S (length l')

(** val app : 'a1 list -> 'a1 list -> 'a1 list **)

let rec app l m =
  match l with
  | [] -> m
  | a :: l1 -> a :: (app l1 m)

module Nat =
 struct
  (** val leb : nat -> nat -> bool **)

  let rec leb n m =
    match n with
    | O -> true
    | S n' -> (match m with
               | O -> false
               | S m' -> leb n' m')

  (** val ltb : nat -> nat -> bool **)

  let ltb n m =
    leb (S n) m
 end

(** val map : ('a1 -> 'a2) -> 'a1 list -> 'a2 list **)

let rec map f = function
| [] -> []
| a :: t -> (f a) :: (map f t)

(** val forallb : ('a1 -> bool) -> 'a1 list -> bool **)

let rec forallb f = function
| [] -> true
| a :: l0 -> (&&) (f a) (forallb f l0)

(** val eqb : char list -> char list -> bool **)

let rec eqb s1 s2 =
  match s1 with
  | [] -> (match s2 with
           | [] -> true
           | _::_ -> false)
  | c1::s1' ->
    (match s2 with
     | [] -> false
     | c2::s2' -> if (=) c1 c2 then eqb s1' s2' else false)

type err =
| ErrValue
| ErrRuntime
| ErrAssert
| ErrNotImpl
| ErrKey
| ErrType
| ErrAttr
| ErrIndex
| ErrTranslation
| ErrOutOfFuel
| ErrOther of char list

type 'a result =
| OK of 'a
| Error of err

(** val err_name : err -> char list **)

let err_name = function
| ErrValue ->
  'V'::('a'::('l'::('u'::('e'::('E'::('r'::('r'::('o'::('r'::[])))))))))
| ErrRuntime ->
  'R'::('u'::('n'::('t'::('i'::('m'::('e'::('E'::('r'::('r'::('o'::('r'::[])))))))))))
| ErrAssert ->
  'A'::('s'::('s'::('e'::('r'::('t'::('i'::('o'::('n'::('E'::('r'::('r'::('o'::('r'::[])))))))))))))
| ErrNotImpl ->
  'N'::('o'::('t'::('I'::('m'::('p'::('l'::('e'::('m'::('e'::('n'::('t'::('e'::('d'::('E'::('r'::('r'::('o'::('r'::[]))))))))))))))))))
| ErrKey -> 'K'::('e'::('y'::('E'::('r'::('r'::('o'::('r'::[])))))))
| ErrType -> 'T'::('y'::('p'::('e'::('E'::('r'::('r'::('o'::('r'::[]))))))))
| ErrAttr ->
  'A'::('t'::('t'::('r'::('i'::('b'::('u'::('t'::('e'::('E'::('r'::('r'::('o'::('r'::[])))))))))))))
| ErrIndex ->
  'I'::('n'::('d'::('e'::('x'::('E'::('r'::('r'::('o'::('r'::[])))))))))
| ErrTranslation ->
  'x'::('A'::('O'::('D'::('T'::('r'::('a'::('n'::('s'::('l'::('a'::('t'::('i'::('o'::('n'::('E'::('r'::('r'::('o'::('r'::[])))))))))))))))))))
| ErrOutOfFuel ->
  'O'::('u'::('t'::('O'::('f'::('F'::('u'::('e'::('l'::[]))))))))
| ErrOther t -> t

(** val mem_str : char list -> char list list -> bool **)

let rec mem_str x = function
| [] -> false
| y :: r -> if eqb x y then true else mem_str x r

(** val list_str_eqb : char list list -> char list list -> bool **)

let rec list_str_eqb a b =
  match a with
  | [] -> (match b with
           | [] -> true
           | _ :: _ -> false)
  | x :: a' ->
    (match b with
     | [] -> false
     | y :: b' -> (&&) (eqb x y) (list_str_eqb a' b'))

type sexp =
| SAtom of char list
| SList of sexp list

(** val s_strs : char list list -> sexp **)

let s_strs l =
  SList (map (fun x -> SAtom x) l)

(** val s_tag : char list -> sexp list -> sexp **)

let s_tag t l =
  SList ((SAtom t) :: l)

(** val s_err : err -> sexp **)

let s_err e =
  s_tag ('e'::('r'::('r'::('o'::('r'::[]))))) ((SAtom (err_name e)) :: [])

(** val s_result : ('a1 -> sexp) -> 'a1 result -> sexp **)

let s_result enc = function
| OK a -> s_tag ('o'::('k'::[])) ((enc a) :: [])
| Error e -> s_err e

(** val d_str : sexp -> char list option **)

let d_str = function
| SAtom a -> Some a
| SList _ -> None

(** val d_list : (sexp -> 'a1 option) -> sexp list -> 'a1 list option **)

let rec d_list d = function
| [] -> Some []
| x :: r ->
  (match d x with
   | Some a ->
     (match d_list d r with
      | Some r' -> Some (a :: r')
      | None -> None)
   | None -> None)

(** val d_strs : sexp -> char list list option **)

let d_strs = function
| SAtom _ -> None
| SList l -> d_list d_str l

(** val bad_input : sexp **)

let bad_input =
  s_tag ('b'::('a'::('d'::('-'::('i'::('n'::('p'::('u'::('t'::[]))))))))) []

type jblock = { jb_name : char list; jb_script : char list list;
                jb_deps : char list list }

type entry = char list * (char list list * char list list)

type table = entry list

(** val tget :
    char list -> table -> (char list list * char list list) option **)

let rec tget n = function
| [] -> None
| e :: r -> let (k, v) = e in if eqb n k then Some v else tget n r

(** val textend : char list -> char list list -> table -> table **)

let rec textend n ds = function
| [] -> []
| e :: r ->
  let (k, p) = e in
  let (s, d) = p in
  if eqb n k
  then (k, (s, (app d ds))) :: r
  else (k, (s, d)) :: (textend n ds r)

(** val step1 : table -> jblock -> table result **)

let step1 t b =
  match tget b.jb_name t with
  | Some p ->
    let (s0, _) = p in
    if list_str_eqb b.jb_script s0
    then OK (textend b.jb_name b.jb_deps t)
    else Error ErrValue
  | None -> OK (app t ((b.jb_name, (b.jb_script, b.jb_deps)) :: []))

(** val phase1 : jblock list -> table -> table result **)

let rec phase1 bs t =
  match bs with
  | [] -> OK t
  | b :: r -> (match step1 t b with
               | OK t' -> phase1 r t'
               | Error e -> Error e)

(** val has_key : char list -> table -> bool **)

let has_key n t =
  match tget n t with
  | Some _ -> true
  | None -> false

(** val deps_present : table -> bool **)

let deps_present t =
  forallb (fun e -> forallb (fun d -> has_key d t) (snd (snd e))) t

(** val one_pass :
    table -> char list list -> char list list -> bool -> (char list
    list * char list list) * bool **)

let rec one_pass rest seen out emitted =
  match rest with
  | [] -> ((seen, out), emitted)
  | e :: r ->
    let (n, p) = e in
    let (scr, ds) = p in
    if (&&) (negb (mem_str n seen)) (forallb (fun d -> mem_str d seen) ds)
    then one_pass r (app seen (n :: [])) (app out scr) true
    else one_pass r seen out emitted

(** val emit_loop :
    nat -> table -> char list list -> char list list -> char list list result **)

let rec emit_loop fuel t seen out =
  if Nat.ltb (length seen) (length t)
  then (match fuel with
        | O -> Error ErrOutOfFuel
        | S f ->
          let (p, b) = one_pass t seen out false in
          let (seen', out') = p in
          if b then emit_loop f t seen' out' else Error ErrValue)
  else OK out

(** val gen : jblock list -> char list list result **)

let gen bs =
  match phase1 bs [] with
  | OK t ->
    if deps_present t
    then emit_loop (S (length t)) t [] []
    else Error ErrValue
  | Error e -> Error e

(** val d_jblock : sexp -> jblock option **)

let d_jblock = function
| SAtom _ -> None
| SList l ->
  (match l with
   | [] -> None
   | s0 :: l0 ->
     (match s0 with
      | SAtom n ->
        (match l0 with
         | [] -> None
         | sc :: l1 ->
           (match l1 with
            | [] -> None
            | dp :: l2 ->
              (match l2 with
               | [] ->
                 (match d_strs sc with
                  | Some sc' ->
                    (match d_strs dp with
                     | Some dp' ->
                       Some { jb_name = n; jb_script = sc'; jb_deps = dp' }
                     | None -> None)
                  | None -> None)
               | _ :: _ -> None)))
      | SList _ -> None))

(** val run_gen : sexp -> sexp **)

let run_gen = function
| SAtom _ -> bad_input
| SList l ->
  (match d_list d_jblock l with
   | Some bs -> s_result s_strs (gen bs)
   | None -> bad_input)

(** val dispatch : char list -> sexp -> sexp **)

let dispatch cmd arg =
  if eqb cmd ('c'::('1'::('5'::('.'::('g'::('e'::('n'::[])))))))
  then run_gen arg
  else s_tag
         ('u'::('n'::('k'::('n'::('o'::('w'::('n'::('-'::('c'::('o'::('m'::('m'::('a'::('n'::('d'::[])))))))))))))))
         ((SAtom cmd) :: [])
